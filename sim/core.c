/* abtsim core: sim threads, seeded scheduler, virtual clock, trace, monitors */
#define _GNU_SOURCE
#include "sim_int.h"
#include "whitebox.h"
#include <stdlib.h>
#include <string.h>
#include <errno.h>
#include <unistd.h>
#include <sys/mman.h>

extern __thread void *lp_ABTI_local;
extern void wb_asan_ctxswitch(const void *p_abandoned, const void *p_new);

sim_globals G;
sim_shared *SH;
reach_ent sim_reach[SIM_MAX_REACH];
int sim_nreach;

/* ------------------------------------------------------------------ PRNG */
static inline uint64_t splitmix(uint64_t *s)
{
    uint64_t z = (*s += 0x9e3779b97f4a7c15ULL);
    z = (z ^ (z >> 30)) * 0xbf58476d1ce4e5b9ULL;
    z = (z ^ (z >> 27)) * 0x94d049bb133111ebULL;
    return z ^ (z >> 31);
}
uint64_t sim_rand(int stream)
{
    return splitmix(&G.rs[stream]);
}
uint32_t sim_rand_n(int stream, uint32_t n)
{
    if (n <= 1)
        return 0;
    return (uint32_t)((sim_rand(stream) >> 11) % n);
}
#define srnd(n) sim_rand_n(SIM_RS_SCHED, (n))
#define frnd(n) sim_rand_n(SIM_RS_FAULT, (n))

/* ------------------------------------------------------------------ limits */
#define MAX_LIMITS 24
static struct {
    char name[24];
    int v, set;
} limits[MAX_LIMITS];
static int nlimits;
void sim_limit_set(const char *name, int v)
{
    for (int i = 0; i < nlimits; i++)
        if (!strcmp(limits[i].name, name)) {
            limits[i].v = v;
            limits[i].set = 1;
            return;
        }
    if (nlimits < MAX_LIMITS) {
        strncpy(limits[nlimits].name, name, 23);
        limits[nlimits].v = v;
        limits[nlimits].set = 1;
        nlimits++;
    }
}
int sim_limit(const char *name, int dflt)
{
    for (int i = 0; i < nlimits; i++)
        if (!strcmp(limits[i].name, name)) {
            if (limits[i].set)
                return limits[i].v < dflt ? limits[i].v : dflt;
            /* one name, one default: the result line reports the first default only, and a
             * replay with explicit limits must regenerate the same plan */
            if (limits[i].v != dflt)
                sim_fail("infra:limit-default-conflict", "limit '%s' is used with the defaults %d and %d", name, limits[i].v, dflt);
            return dflt;
        }
    if (nlimits < MAX_LIMITS) {
        strncpy(limits[nlimits].name, name, 23);
        limits[nlimits].v = dflt;
        limits[nlimits].set = 0;
        nlimits++;
    }
    return dflt;
}
int sim_limits_format(char *buf, int sz)
{
    int n = 0;
    buf[0] = 0;
    for (int i = 0; i < nlimits && n < sz - 40; i++)
        n += snprintf(buf + n, sz - n, "%s%s=%d", i ? "," : "", limits[i].name, limits[i].v);
    return n;
}

/* ------------------------------------------------------------------ sites */
#define SITE_HASH 2048
static struct {
    const char *file;
    int line;
    int id;
} site_tab[SITE_HASH];
static struct {
    const char *file;
    int line;
    uint32_t arrivals;
} site_info[SITE_HASH];
static int nsites;
int sim_site_id(const char *file, int line)
{
    uint32_t h = (uint32_t)((((uintptr_t)file) >> 3) * 2654435761u + (uint32_t)line * 40503u) % SITE_HASH;
    while (site_tab[h].file) {
        if (site_tab[h].file == file && site_tab[h].line == line)
            return site_tab[h].id;
        h = (h + 1) % SITE_HASH;
    }
    if (nsites >= SITE_HASH - 1)
        return 0;
    site_tab[h].file = file;
    site_tab[h].line = line;
    site_tab[h].id = nsites;
    site_info[nsites].file = file;
    site_info[nsites].line = line;
    return nsites++;
}
const char *sim_site_name(int id, int *line)
{
    if (id < 0 || id >= nsites) {
        *line = 0;
        return "?";
    }
    *line = site_info[id].line;
    const char *f = site_info[id].file;
    const char *s = strrchr(f, '/');
    return s ? s + 1 : f;
}

/* ------------------------------------------------------------------ tail log */
#define TAIL_N 48
static struct {
    uint64_t step;
    int tid, kind, site;
} tail[TAIL_N];
static unsigned tail_pos;
void sim_dump_tail(char *buf, int sz)
{
    int n = 0;
    buf[0] = 0;
    unsigned cnt = tail_pos < TAIL_N ? tail_pos : TAIL_N;
    for (unsigned i = 0; i < cnt && n < sz - 48; i++) {
        unsigned k = (tail_pos - cnt + i) % TAIL_N;
        int line;
        const char *f = sim_site_name(tail[k].site, &line);
        n += snprintf(buf + n, sz - n, "%s%lu:t%d:%c:%s:%d", i ? " " : "", (unsigned long)tail[k].step, tail[k].tid, tail[k].kind, f, line);
    }
}

/* ------------------------------------------------------------------ threads */
static void thread_tramp(void);
static void setup_stack(sthread *t)
{
    t->stack = mmap(0, SIM_STACK_SZ, PROT_READ | PROT_WRITE, MAP_PRIVATE | MAP_ANONYMOUS, -1, 0);
    if (t->stack == MAP_FAILED) {
        sim_write_result("infra", "mmap-stack", "cannot allocate sim stack");
        _exit(2);
    }
    uint64_t *top = (uint64_t *)((char *)t->stack + SIM_STACK_SZ);
    /* layout consumed by sim_swap: [mxcsr|fpucw][r15][r14][r13][r12][rbx][rbp][ret] */
    *--top = 0;                          /* fake return address of tramp */
    *--top = (uint64_t)(uintptr_t)thread_tramp; /* ret target */
    *--top = 0;                          /* rbp */
    *--top = 0;                          /* rbx */
    *--top = 0;                          /* r12 */
    *--top = 0;                          /* r13 */
    *--top = 0;                          /* r14 */
    *--top = 0;                          /* r15 */
    uint32_t mxcsr = 0x1f80;
    uint16_t cw = 0x037f;
    uint64_t w = (uint64_t)mxcsr | ((uint64_t)cw << 32);
    *--top = w;
    t->sp = top;
}

static int new_thread(int role)
{
    if (G.nT >= SIM_MAXT)
        sim_fail("infra:too-many-threads", "more than %d sim threads", SIM_MAXT);
    int id = G.nT++;
    sthread *t = &G.T[id];
    memset(t, 0, sizeof *t);
    t->id = id;
    t->role = role;
    t->state = ST_RUNNABLE;
    t->joiner = -1;
    t->spin_limit = 64;
    t->born = G.steps;
    t->prio = (srnd(1u << 30) << 1) | 1; /* non-zero */
    setup_stack(t);
    return id;
}

static void do_switch(int n)
{
    if (n == G.cur)
        return;
    sthread *o = &G.T[G.cur], *t = &G.T[n];
    o->tls = lp_ABTI_local;
    o->err = errno;
    /* schedule signature: (from role, site) -> (to role) */
    G.sig = (G.sig ^ (uint64_t)(G.last_site + 1) * 0x9e3779b97f4a7c15ULL ^ ((uint64_t)o->id << 8) ^ (uint64_t)t->id) * 0x100000001b3ULL;
    G.switches++;
    G.cur = n;
    lp_ABTI_local = t->tls;
    errno = t->err;
    sim_swap(&o->sp, t->sp);
}

/* ------------------------------------------------------------------ trace */
static void trace_record(int tid)
{
    if (!G.record)
        return;
    if (G.ntrace && G.trace[G.ntrace - 1].tid == tid && G.trace[G.ntrace - 1].count < 0xffffff00u) {
        G.trace[G.ntrace - 1].count++;
        return;
    }
    if (G.ntrace < SIM_MAX_TRACE) {
        G.trace[G.ntrace].tid = (uint16_t)tid;
        G.trace[G.ntrace].count = 1;
        G.ntrace++;
    }
}
static void event_record(int type, int arg, uint64_t val)
{
    if (!G.record || G.nevents >= SIM_MAX_EVENTS)
        return;
    G.events[G.nevents].step = G.steps;
    G.events[G.nevents].type = type;
    G.events[G.nevents].arg = arg;
    G.events[G.nevents].val = val;
    G.nevents++;
}

/* ------------------------------------------------------------------ scheduler */
void sim_wake(int tid, int reason)
{
    sthread *t = &G.T[tid];
    if (t->state != ST_BLOCKED)
        return;
    t->state = ST_RUNNABLE;
    t->wake_time = 0;
    t->wake_reason = reason;
    t->wait_kind = WK_NONE;
    t->wait_addr = 0;
    t->ro_streak = 0;
}

static int next_timer(void)
{
    int bi = -1;
    uint64_t best = 0;
    for (int i = 0; i < G.nT; i++)
        if (G.T[i].state == ST_BLOCKED && G.T[i].wake_time && (bi < 0 || G.T[i].wake_time < best)) {
            best = G.T[i].wake_time;
            bi = i;
        }
    return bi;
}

static inline int is_idle(const sthread *t)
{
    return t->ro_streak >= t->spin_limit;
}

static void describe_threads(char *buf, int sz)
{
    int n = 0;
    static const char *wk[] = { "none", "mutex", "cond", "futex", "sleep", "join", "barrier" };
    static const char *st[] = { "free", "runnable", "blocked", "done" };
    for (int i = 0; i < G.nT && n < sz - 60; i++)
        n += snprintf(buf + n, sz - n, "%st%d(role%d):%s/%s%s", i ? " " : "", i, G.T[i].role, st[G.T[i].state], wk[G.T[i].wait_kind],
                      is_idle(&G.T[i]) ? "/idle" : "");
}

void sim_hang_report(const char *what)
{
    char buf[700], diag[500];
    G.frozen = 1;
    describe_threads(buf, sizeof buf);
    diag[0] = 0;
    if (G.diag_cb)
        G.diag_cb(diag, sizeof diag);
    sim_fail(what, "step=%lu last_progress=%lu now=%lu threads: %s state: %s", (unsigned long)G.steps, (unsigned long)G.last_progress,
             (unsigned long)G.now, buf, diag);
}

static void inject_wake_faults(void)
{
    /* spurious wake-ups of futex / cond waiters, early return of nanosleep */
    if (!G.faults_on || G.fault_budget <= 0 || G.steps > G.adv_steps)
        return;
    for (int i = 0; i < G.nT; i++) {
        sthread *t = &G.T[i];
        if (t->state != ST_BLOCKED)
            continue;
        int kind;
        if (t->wait_kind == WK_FUTEX)
            kind = SIM_F_FUTEX_SPURIOUS;
        else if (t->wait_kind == WK_COND)
            kind = SIM_F_COND_SPURIOUS;
        else if (t->wait_kind == WK_SLEEP)
            kind = SIM_F_NANOSLEEP_EARLY;
        else
            continue;
        if (!(G.fault_mask & (1u << kind)))
            continue;
        if (frnd((uint32_t)G.spurious_rate) == 0) {
            G.fault_budget--;
            G.fired[kind]++;
            event_record('S', i, 0);
            sim_wake(i, WR_SPURIOUS);
            if (G.fault_budget <= 0)
                return;
        }
    }
}

static void apply_replay_events(void)
{
    while (G.event_pos < G.nevents && G.events[G.event_pos].step <= G.steps) {
        trace_ev *e = &G.events[G.event_pos++];
        if (e->step != G.steps)
            continue;
        switch (e->type) {
            case 'S':
                if (e->arg < G.nT && G.T[e->arg].state == ST_BLOCKED) {
                    int k = G.T[e->arg].wait_kind == WK_FUTEX ? SIM_F_FUTEX_SPURIOUS
                            : G.T[e->arg].wait_kind == WK_COND ? SIM_F_COND_SPURIOUS
                                                                 : SIM_F_NANOSLEEP_EARLY;
                    G.fired[k]++;
                    sim_wake(e->arg, WR_SPURIOUS);
                }
                break;
            case 'C':
                G.now += e->val;
                G.fired[SIM_F_CLOCK_JUMP]++;
                break;
            case 'J': {
                int bi = next_timer();
                if (bi >= 0) {
                    if (G.T[bi].wake_time > G.now)
                        G.now = G.T[bi].wake_time;
                    G.jumps++;
                }
                break;
            }
            default:
                break;
        }
    }
}

static int choose_next(void)
{
    sthread *T = G.T;
    int cand[SIM_MAXT], nc, nstalled;
    if (G.replay_trace)
        apply_replay_events();
    else {
        if ((G.steps & 31) == 0)
            inject_wake_faults();
        /* forward clock jump fault */
        if (G.faults_on && G.fault_budget > 0 && G.steps <= G.adv_steps && (G.fault_mask & (1u << SIM_F_CLOCK_JUMP)) &&
            (G.steps & 255) == 0 && frnd(64) == 0) {
            uint64_t d = G.quantum * (1 + frnd(5000));
            G.now += d;
            G.fault_budget--;
            G.fired[SIM_F_CLOCK_JUMP]++;
            event_record('C', 0, d);
        }
    }
retry:
    nc = 0;
    nstalled = 0;
    for (int i = 0; i < G.nT; i++) {
        if (T[i].state == ST_BLOCKED && T[i].wake_time && T[i].wake_time <= G.now)
            sim_wake(i, WR_TIMEOUT);
        if (T[i].state != ST_RUNNABLE)
            continue;
        if (T[i].stall_until > G.steps) {
            nstalled++;
            continue;
        }
        cand[nc++] = i;
    }
    if (nc == 0) {
        if (nstalled) {
            for (int i = 0; i < G.nT; i++)
                T[i].stall_until = 0;
            goto retry;
        }
        int bi = next_timer();
        if (bi < 0)
            sim_hang_report("deadlock");
        G.now = T[bi].wake_time;
        G.jumps++;
        goto retry;
    }
    /* everybody idle-spinning: let virtual time pass to the next timer */
    if (!G.replay_trace && nstalled == 0) {
        int allidle = 1;
        for (int i = 0; i < nc; i++)
            if (!is_idle(&T[cand[i]])) {
                allidle = 0;
                break;
            }
        if (allidle) {
            int bi = next_timer();
            if (bi >= 0) {
                event_record('J', 0, 0);
                if (T[bi].wake_time > G.now)
                    G.now = T[bi].wake_time;
                G.jumps++;
                sim_wake(bi, WR_TIMEOUT);
                for (int i = 0; i < nc; i++)
                    T[cand[i]].ro_streak = 0;
                cand[nc++] = bi;
                /* run the woken thread first so that the timeout is observed */
                return bi;
            }
        }
    }
    if (G.replay_trace) {
        while (G.trace_pos < G.ntrace && G.trace_left == 0) {
            G.trace_pos++;
            if (G.trace_pos < G.ntrace)
                G.trace_left = G.trace[G.trace_pos].count;
        }
        if (G.trace_pos < G.ntrace) {
            int want = G.trace[G.trace_pos].tid;
            G.trace_left--;
            for (int i = 0; i < nc; i++)
                if (cand[i] == want)
                    return want;
            /* edited trace: fall back deterministically */
            for (int i = 0; i < nc; i++)
                if (cand[i] == G.cur)
                    return G.cur;
            return cand[0];
        }
        /* trace exhausted: fair random walk (liveness is only judged from here on) */
        if (G.adv_steps > G.steps)
            G.adv_steps = G.steps;
        for (int i = 0; i < nc; i++)
            if (cand[i] == G.cur && srnd(2) == 0)
                return G.cur;
        return cand[srnd((uint32_t)nc)];
    }
    int cur_ok = 0;
    for (int i = 0; i < nc; i++)
        if (cand[i] == G.cur)
            cur_ok = 1;
    int strat = G.steps > G.adv_steps ? STRAT_RANDOM : G.strat;
    switch (strat) {
        case STRAT_PCT: {
            for (int k = 0; k < G.pct_d; k++)
                if (G.pct_cp[k] == G.steps && cur_ok)
                    T[G.cur].prio = (uint64_t)(G.pct_d - k); /* lower than every initial priority */
            int best = -1;
            for (int i = 0; i < nc; i++) {
                if (is_idle(&T[cand[i]]))
                    continue;
                if (best < 0 || T[cand[i]].prio > T[best].prio)
                    best = cand[i];
            }
            if (best >= 0)
                return best;
            return cand[srnd((uint32_t)nc)];
        }
        case STRAT_RR:
            if (cur_ok && G.rr_left-- > 0)
                return G.cur;
            G.rr_left = G.rr_quantum;
            for (int i = 0; i < nc; i++)
                if (cand[i] > G.cur)
                    return cand[i];
            return cand[0];
        case STRAT_SLOW:
            if (G.steps >= G.slow_from && G.steps < G.slow_to) {
                int victim = G.slow_victim % G.nT;
                if (cur_ok && G.cur != victim && (int)srnd(100) < G.stick)
                    return G.cur;
                int c = cand[srnd((uint32_t)nc)];
                if (c == victim && nc > 1 && srnd(100) != 0) {
                    /* re-draw among the others */
                    int j = (int)srnd((uint32_t)(nc - 1));
                    for (int i = 0; i < nc; i++) {
                        if (cand[i] == victim)
                            continue;
                        if (j-- == 0)
                            return cand[i];
                    }
                }
                return c;
            }
            /* fall through */
        default:
            if (cur_ok && (int)srnd(100) < (G.steps > G.adv_steps ? 50 : G.stick))
                return G.cur;
            return cand[srnd((uint32_t)nc)];
    }
}

static void limits_check(void)
{
    if (G.steps > 50000000ULL)
        sim_hang_report("hang:step-cap");
    uint64_t base = G.last_progress > G.adv_steps ? G.last_progress : G.adv_steps;
    if (G.steps > base && G.steps - base > 2000000ULL)
        sim_hang_report("hang:no-progress");
}

void sim_sched_point(int kind, const char *file, int line)
{
    if (G.frozen)
        return;
    sthread *me = &G.T[G.cur];
    int site = file ? sim_site_id(file, line) : 0;
    G.steps++;
    me->nsteps++;
    {
        /* a step takes longer on a "slow machine" once the run has made no harness-level
         * progress for a long time: virtual time then reaches every finite timeout well
         * within the liveness bound (legal: no oracle encodes timing) */
        uint64_t since = G.steps - G.last_progress, q = G.quantum;
        if (since > 300000 && q < 1000000)
            q = 1000000;
        else if (since > 100000 && q < 10000)
            q = 10000;
        G.now += q;
    }
    G.last_site = site;
    G.fp = (G.fp ^ ((uint64_t)G.cur << 24) ^ ((uint64_t)kind << 16) ^ (uint64_t)site) * 0x100000001b3ULL;
    if (G.steplog) {
        int ln;
        const char *fn = sim_site_name(site, &ln);
        fprintf(G.steplog, "%lu t%d %c %s:%d addr=%p now=%lu\n", (unsigned long)G.steps, G.cur, kind, fn, ln, G.T[G.cur].last_addr, (unsigned long)G.now);
    }
    tail[tail_pos % TAIL_N].step = G.steps;
    tail[tail_pos % TAIL_N].tid = G.cur;
    tail[tail_pos % TAIL_N].kind = kind;
    tail[tail_pos % TAIL_N].site = site;
    tail_pos++;
    if (kind == 'W' || kind == 'C') {
        me->ro_streak = 0;
        me->spin_limit = 64;
        for (int i = 0; i < G.nT; i++)
            if (i != G.cur && G.T[i].ro_streak) {
                if (is_idle(&G.T[i]) && G.T[i].spin_limit > 4)
                    G.T[i].spin_limit /= 2;
                G.T[i].ro_streak = 0;
            }
    } else if (me->state == ST_RUNNABLE) {
        me->ro_streak++;
    }
    if ((G.steps & 1023) == 0)
        limits_check();
    /* targeted delay */
    if (G.strat == STRAT_TARGET && G.steps <= G.adv_steps && !G.replay_trace && me->state == ST_RUNNABLE) {
        for (int k = 0; k < G.tgt_n; k++)
            if (site == G.tgt_site[k] && ++site_info[site].arrivals == (uint32_t)G.tgt_arrival[k]) {
                me->stall_until = G.steps + (uint64_t)G.tgt_len[k];
                G.fired[SIM_F_TARGET_DELAY]++;
            }
    }
    int n = choose_next();
    trace_record(n);
    if (n != G.cur)
        do_switch(n);
    if (G.step_cb && !G.in_cb) {
        G.in_cb = 1;
        G.step_cb();
        G.in_cb = 0;
    }
}

int sim_block(int kind, const void *addr, uint64_t deadline)
{
    sthread *me = &G.T[G.cur];
    me->state = ST_BLOCKED;
    me->wait_kind = kind;
    me->wait_addr = addr;
    me->wake_time = deadline;
    me->wake_reason = WR_NONE;
    sim_sched_point('B', 0, 0);
    return me->wake_reason;
}

/* ------------------------------------------------------------------ hooks */
void abtv_pre(int kind, const void *addr, const char *file, int line)
{
    G.T[G.cur].last_addr = addr;
    sim_sched_point(kind, file, line);
}

void abtv_post(void)
{
    sthread *me = &G.T[G.cur];
    if (G.store_cb && !G.in_cb) {
        G.in_cb = 1;
        G.store_cb(me->last_addr);
        G.in_cb = 0;
    }
    if (G.strat == STRAT_STALL && !G.replay_trace && G.steps <= G.adv_steps && G.fault_budget > 0 &&
        srnd((uint32_t)G.stall_rate) == 0) {
        me->stall_until = G.steps + 50 + srnd((uint32_t)G.stall_len_max);
        G.fired[SIM_F_STALL]++;
        G.fault_budget--;
    }
    sim_sched_point('p', 0, 0);
}

void abtv_yield(const char *file, int line)
{
    sim_sched_point('Y', file, line);
}

/* Variant VP: libabt is compiled by clang with -fsanitize-coverage=trace-loads,trace-stores, so
 * every plain load and store of the library calls in here.  Every so many accesses (the gap is
 * drawn from a stream of its own, so recording and replaying draw alike) the access becomes a
 * scheduling point: another stream may then run between two non-atomic accesses, e.g. in the
 * middle of a critical section that lost its lock, or between two halves of an update that
 * only the owning stream is supposed to make. */
void sim_plain_access(void)
{
    if (G.frozen || G.in_cb || !G.plain_mean)
        return;
    if (--G.plain_countdown > 0)
        return;
    G.plain_countdown = 1 + (int64_t)(splitmix(&G.plain_rng) % (2 * (uint64_t)G.plain_mean));
    G.plain_points++;
    sim_sched_point('m', "plain-access", 0);
}

/* M-owner: a ULT context may be entered only if no sim thread currently owns it */
#define OWN_N 2048
static const void *own_ctx[OWN_N];
static int own_thr[OWN_N];
static int own_find(const void *c)
{
    unsigned h = (unsigned)(((uintptr_t)c >> 4) * 2654435761u) % OWN_N;
    while (own_ctx[h] && own_ctx[h] != c)
        h = (h + 1) % OWN_N;
    return (int)h;
}
void abtv_ctxswitch(const void *p_old, const void *p_new)
{
    static int s_file_line;
    (void)s_file_line;
    sim_sched_point('C', "ctxswitch", p_old ? 1 : 2);
    sthread *me = &G.T[G.cur];
    G.ctx_switches++;
    if (p_old && me->cur_ctx && me->cur_ctx != p_old)
        sim_fail("M-owner:old-mismatch", "sim thread %d leaves context %p but was running %p", G.cur, p_old, me->cur_ctx);
    const void *rel = p_old ? p_old : me->cur_ctx;
    wb_asan_ctxswitch(p_old ? NULL : me->cur_ctx, p_new);
    if (rel) {
        int h = own_find(rel);
        if (own_ctx[h])
            own_thr[h] = -1;
    }
    int h = own_find(p_new);
    if (own_ctx[h] && own_thr[h] >= 0 && own_thr[h] != G.cur)
        sim_fail("M-owner:resumed-while-running", "context %p entered by sim thread %d while still owned by sim thread %d (its context is not saved yet)",
                 p_new, G.cur, own_thr[h]);
    own_ctx[h] = p_new;
    own_thr[h] = G.cur;
    me->cur_ctx = p_new;
}
void sim_ctx_reset(void)
{
    /* the runtime was finalized (or failed to initialise): all contexts are gone */
    memset(own_ctx, 0, sizeof own_ctx);
    for (int i = 0; i < G.nT; i++)
        G.T[i].cur_ctx = NULL;
}
uint64_t sim_ctx_switches(void)
{
    return G.ctx_switches;
}

void abtv_reach(int *p_slot, const char *name)
{
    int s = *p_slot;
    if (s == 0) {
        for (int i = 0; i < sim_nreach; i++)
            if (!strcmp(sim_reach[i].name, name)) {
                s = i + 1;
                break;
            }
        if (s == 0) {
            if (sim_nreach >= SIM_MAX_REACH)
                return;
            strncpy(sim_reach[sim_nreach].name, name, sizeof sim_reach[0].name - 1);
            s = ++sim_nreach;
        }
        *p_slot = s;
    }
    sim_reach[s - 1].count++;
}
void sim_count(const char *name, uint64_t add)
{
    for (int i = 0; i < sim_nreach; i++)
        if (!strcmp(sim_reach[i].name, name)) {
            sim_reach[i].count += add;
            return;
        }
    if (sim_nreach >= SIM_MAX_REACH)
        return;
    strncpy(sim_reach[sim_nreach].name, name, sizeof sim_reach[0].name - 1);
    sim_reach[sim_nreach++].count = add;
}

void abtv_event(int kind, const void *obj, const void *who)
{
    if (kind == 6 /* ABTV_EV_MEM_LOCAL_POOL_ACCESS */ && !G.frozen)
        wb_local_pool_access(obj);
    if (kind == 7 /* ABTV_EV_MEM_LOCAL_POOL_INIT */)
        wb_local_pool_reset(obj);
    if (((kind >= 1 && kind <= 5) || kind == 8 || kind == 9) && !G.frozen)
        wb_waitlist_event(kind, obj, who);
    if (G.event_cb)
        G.event_cb(kind, obj, who);
}
void sim_set_event_cb(sim_event_cb cb)
{
    G.event_cb = cb;
}
void sim_set_store_cb(sim_store_cb cb)
{
    G.store_cb = cb;
}
void sim_set_step_cb(sim_step_cb cb)
{
    G.step_cb = cb;
}
void sim_set_diag_cb(sim_diag_cb cb)
{
    G.diag_cb = cb;
}

/* ------------------------------------------------------------------ API */
static void thread_tramp(void)
{
    sthread *t = &G.T[G.cur];
    if (t->fn)
        t->ret = t->fn(t->arg);
    else
        t->fn2(t->arg);
    t->state = ST_DONE;
    if (t->cur_ctx) {
        int h = own_find(t->cur_ctx);
        if (own_ctx[h] && own_thr[h] == G.cur)
            own_thr[h] = -1;
    }
    if (t->joiner >= 0)
        sim_wake(t->joiner, WR_WAKE);
    sim_sched_point('X', 0, 0);
    sim_fail("infra:dead-thread-resumed", "finished sim thread %d was scheduled", G.cur);
}

int sim_spawn_pthread(void *(*fn)(void *), void *arg)
{
    int id = new_thread(ROLE_ES);
    G.T[id].fn = fn;
    G.T[id].arg = arg;
    return id;
}
int sim_thread_create(void (*fn)(void *), void *arg)
{
    int id = new_thread(ROLE_EXT);
    G.T[id].fn2 = fn;
    G.T[id].arg = arg;
    sim_sched_point('S', "sim_thread_create", 0);
    return id;
}
void sim_join_internal(int id)
{
    while (G.T[id].state != ST_DONE) {
        G.T[id].joiner = G.cur;
        sim_block(WK_JOIN, &G.T[id], 0);
    }
}
void sim_thread_join(int id)
{
    sim_join_internal(id);
}
int sim_self(void)
{
    return G.cur;
}
void sim_yield(void)
{
    sim_sched_point('P', "sim_yield", 0);
}
void sim_progress(void)
{
    G.last_progress = G.steps;
}
uint64_t sim_now_ns(void)
{
    return G.now;
}
uint64_t sim_quantum_ns(void)
{
    return G.quantum;
}
uint64_t sim_steps(void)
{
    return G.steps;
}
void sim_allow_faults(uint32_t mask)
{
    G.fault_mask = mask;
}
int sim_faults_enabled(void)
{
    return G.faults_on;
}
void sim_fault_fired(int kind)
{
    G.fired[kind]++;
}
int sim_tier(void)
{
    return G.tier;
}

void sim_note(const char *fmt, ...)
{
    va_list ap;
    va_start(ap, fmt);
    if (G.note_len < SIM_NOTE_SZ - 2) {
        int n = vsnprintf(G.note + G.note_len, (size_t)(SIM_NOTE_SZ - G.note_len), fmt, ap);
        if (n > 0)
            G.note_len += n < SIM_NOTE_SZ - G.note_len ? n : SIM_NOTE_SZ - G.note_len - 1;
    }
    va_end(ap);
}

void sim_fail(const char *oracle, const char *fmt, ...)
{
    char msg[1400];
    va_list ap;
    G.frozen = 1;
    va_start(ap, fmt);
    vsnprintf(msg, sizeof msg, fmt, ap);
    va_end(ap);
    const char *st = !strncmp(oracle, "infra:", 6) ? "infra" : "viol";
    sim_write_result(st, oracle, msg);
    _exit(st[0] == 'i' ? 2 : 3);
}

/* ------------------------------------------------------------------ run setup */
static uint64_t mix64(uint64_t x)
{
    x ^= x >> 33;
    x *= 0xff51afd7ed558ccdULL;
    x ^= x >> 33;
    x *= 0xc4ceb9fe1a85ec53ULL;
    x ^= x >> 33;
    return x;
}

void sim_run_begin(void)
{
    for (int i = 0; i < SIM_RS_N; i++)
        G.rs[i] = mix64(G.seed * 0x9e3779b97f4a7c15ULL + (uint64_t)(i + 1) * 0xd1b54a32d192ed03ULL);
    G.fp = 0xcbf29ce484222325ULL;
    G.sig = 0xcbf29ce484222325ULL;
    {
        static const uint32_t means[] = { 16, 64, 256, 1024 };
        G.plain_rng = mix64(G.seed ^ 0x706c61696e616363ULL);
        G.plain_mean = means[splitmix(&G.plain_rng) & 3];
        G.plain_countdown = 1 + (int64_t)(splitmix(&G.plain_rng) % (2 * (uint64_t)G.plain_mean));
    }
    G.now = 1000000000ULL * 1000000; /* arbitrary epoch: 10^6 s (the monotonic clock of the stubs starts 1000 s after "boot") */
    G.fault_mask = (1u << SIM_F_FUTEX_SPURIOUS) | (1u << SIM_F_COND_SPURIOUS) | (1u << SIM_F_NANOSLEEP_EARLY) | (1u << SIM_F_STALL) |
                   (1u << SIM_F_SLOW_NODE) | (1u << SIM_F_TARGET_DELAY);
    /* strategy (swarm) */
    uint32_t r = srnd(100);
    static const int sticks[] = { 0, 50, 90, 99 };
    G.stick = sticks[srnd(4)];
    static const uint64_t quanta[] = { 10, 100, 1000, 10000, 100000 };
    G.quantum = quanta[srnd(5)];
    static const uint64_t advs[] = { 2000, 10000, 50000, 200000 };
    G.adv_steps = advs[srnd(4)];
    static const uint64_t slacks[] = { 0, 0, 50000, 1000000 };
    G.timer_slack = slacks[srnd(4)];
    G.fault_budget = G.faults_on ? 1 + (int)srnd(8) : 0;
    static const int srates[] = { 20, 100, 500 };
    G.spurious_rate = srates[srnd(3)];
    if (r < 40)
        G.strat = STRAT_RANDOM;
    else if (r < 60) {
        G.strat = STRAT_PCT;
        G.pct_d = 1 + (int)srnd(5);
        if (G.adv_steps > 50000)
            G.adv_steps = 50000;
        for (int k = 0; k < G.pct_d; k++)
            G.pct_cp[k] = 1 + srnd((uint32_t)G.adv_steps);
    } else if (r < 75) {
        G.strat = STRAT_STALL;
        static const int rates[] = { 50, 200, 1000 };
        G.stall_rate = rates[srnd(3)];
        G.stall_len_max = 50 + (int)srnd(3000);
        if (!G.faults_on)
            G.fault_budget = 4 + (int)srnd(12); /* stalls are scheduling, not faults */
        else
            G.fault_budget += 8;
    } else if (r < 85) {
        G.strat = STRAT_TARGET;
        G.tgt_n = 1 + (int)srnd(3);
        for (int k = 0; k < G.tgt_n; k++) {
            G.tgt_site[k] = 1 + (int)srnd(300);
            G.tgt_arrival[k] = 1 + (int)srnd(50);
            G.tgt_len[k] = 10 + (int)srnd(5000);
        }
    } else if (r < 95) {
        G.strat = STRAT_SLOW;
        G.slow_victim = (int)srnd(64);
        G.slow_from = srnd(20000);
        G.slow_to = G.slow_from + 1000 + srnd(50000);
        if (G.adv_steps < G.slow_to)
            G.adv_steps = G.slow_to;
        G.fired[SIM_F_SLOW_NODE] = 1;
    } else {
        G.strat = STRAT_RR;
        G.rr_quantum = 1 + (int)srnd(200);
    }
    if (G.replay_trace) {
        G.adv_steps = 40000000ULL; /* until the trace is exhausted */
        G.trace_pos = 0;
        G.trace_left = G.ntrace ? G.trace[0].count : 0;
        G.event_pos = 0;
    }
    /* thread 0 = primary */
    G.nT = 0;
    int id = new_thread(ROLE_PRIMARY);
    (void)id;
}
