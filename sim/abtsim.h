/* abtsim: deterministic simulator for Argobots -- interface used by workloads.
 * See /verif/DESIGN.md section 2. */
#ifndef ABTSIM_H
#define ABTSIM_H
#include <stdint.h>
#include <stddef.h>
#include <stdarg.h>

/* ---- PRNG streams (all derived from VERIF_SEED) ---- */
enum { SIM_RS_PLAN = 0, SIM_RS_SCHED = 1, SIM_RS_FAULT = 2, SIM_RS_CHAOS = 3, SIM_RS_N };
uint64_t sim_rand(int stream);             /* raw 64-bit */
uint32_t sim_rand_n(int stream, uint32_t n); /* uniform in [0,n) ; n>0 */
#define plan_n(n) sim_rand_n(SIM_RS_PLAN, (n))
#define plan_bool() (sim_rand_n(SIM_RS_PLAN, 2) == 1)
/* uniform in [lo,hi] */
static inline int plan_range(int lo, int hi)
{
    return lo + (int)sim_rand_n(SIM_RS_PLAN, (uint32_t)(hi - lo + 1));
}

/* ---- limits (shrinkable knobs): a workload asks for the value of a named limit;
 * the default is used unless the replay/minimiser overrides it. */
int sim_limit(const char *name, int dflt);

/* ---- sim threads (external threads from the point of view of Argobots) ---- */
int sim_thread_create(void (*fn)(void *), void *arg); /* returns sim thread id */
void sim_thread_join(int id);
int sim_self(void);
/* explicit scheduling point for harness spin loops (counts as a pause) */
void sim_yield(void);
/* mark harness-level progress (an operation completed); liveness is measured in
 * steps since the last call */
void sim_progress(void);

/* ---- time ---- */
uint64_t sim_now_ns(void);
uint64_t sim_quantum_ns(void);
uint64_t sim_steps(void);

/* ---- verdicts ---- */
void sim_fail(const char *oracle, const char *fmt, ...) __attribute__((noreturn, format(printf, 2, 3)));
#define SIM_CHECK(cond, oracle, ...)                                           \
    do {                                                                       \
        if (!(cond))                                                           \
            sim_fail((oracle), __VA_ARGS__);                                   \
    } while (0)
/* describe the generated plan (appears in samples and replay files) */
void sim_note(const char *fmt, ...) __attribute__((format(printf, 1, 2)));
/* count something in the evidence ("reach" counters shared with ABTV_REACH) */
void sim_count(const char *name, uint64_t add);

/* ---- faults ---- */
enum {
    SIM_F_FUTEX_SPURIOUS = 0,
    SIM_F_COND_SPURIOUS,
    SIM_F_NANOSLEEP_EARLY,
    SIM_F_CLOCK_JUMP,
    SIM_F_STALL,
    SIM_F_SLOW_NODE,
    SIM_F_MALLOC_FAIL,
    SIM_F_MMAP_FAIL,
    SIM_F_MPROTECT_FAIL,
    SIM_F_PTHREAD_CREATE_FAIL,
    SIM_F_PTHREAD_INIT_FAIL,
    SIM_F_CHAOS_POP,
    SIM_F_TARGET_DELAY,
    SIM_F_N
};
/* which scheduler-level fault kinds the workload allows (bit mask of 1<<SIM_F_x);
 * default: all schedule faults allowed, allocation faults never random */
void sim_allow_faults(uint32_t mask);
int sim_faults_enabled(void); /* 0 in fault-free batches */
void sim_fault_fired(int kind); /* for faults implemented by workloads (chaos pop) */

/* allocation-failure injection, attached to an operation: the k-th (1-based)
 * allocation-class call made by the *calling sim thread* from now on fails (k=0:
 * disarm).  kinds: bit mask of resource classes */
enum { SIM_RES_MALLOC = 1, SIM_RES_MMAP = 2, SIM_RES_MPROTECT = 4, SIM_RES_PTHREAD_CREATE = 8, SIM_RES_PTHREAD_INIT = 16, SIM_RES_ALL = 31 };
void sim_alloc_arm(int k, int kinds);
/* number of allocation-class calls of the given kinds made by the calling sim thread
 * since the last sim_alloc_arm/sim_alloc_count_reset */
int sim_alloc_count(void);
void sim_alloc_count_reset(int kinds);
int sim_alloc_fired(void); /* did the armed failure fire? */

/* ---- ledger ---- */
long sim_ledger_live(void);       /* live allocations made by libabt */
long sim_ledger_live_bytes(void);
void sim_ledger_check_empty(const char *when); /* sim_fail if not empty */
/* iterate for diagnostics */
void sim_ledger_dump(int max);
int sim_ledger_contains(const void *lo, const void *hi); /* [lo,hi) lies inside one live block of the runtime */

/* ---- context ownership monitor (M-owner) is always on; query: */
uint64_t sim_ctx_switches(void);
/* forget every context (call after ABT_finalize when the runtime is initialised again) */
void sim_ctx_reset(void);

/* ---- event hook for white-box layers: workload may register a callback */
typedef void (*sim_event_cb)(int kind, const void *obj, const void *who);
void sim_set_event_cb(sim_event_cb cb);
/* observe every atomic store/RMW (address, after the operation) */
typedef void (*sim_store_cb)(const void *addr);
void sim_set_store_cb(sim_store_cb cb);
/* called after every scheduling step in the context of the running thread */
typedef void (*sim_step_cb)(void);
void sim_set_step_cb(sim_step_cb cb);

/* diagnostics appended to hang/deadlock reports: fill buf with workload state */
typedef void (*sim_diag_cb)(char *buf, int sz);
void sim_set_diag_cb(sim_diag_cb cb);

/* ---- workload registry ---- */
typedef struct sim_workload {
    const char *prop;     /* "C04" */
    const char *name;     /* scenario family name */
    void (*run)(void);    /* executed on sim thread 0 */
    int weight;           /* relative share within the property */
} sim_workload;
#define SIM_WORKLOAD(prop_, name_, fn_, weight_)                               \
    static const sim_workload wl_##fn_ = { prop_, name_, fn_, weight_ };        \
    __attribute__((constructor)) static void reg_##fn_(void)                    \
    {                                                                          \
        sim_register_workload(&wl_##fn_);                                      \
    }
void sim_register_workload(const sim_workload *w);

/* tier: 0 quick, 1 thorough */
int sim_tier(void);
const char *sim_variant(void);

#endif
