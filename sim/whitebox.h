/* white-box accessors (the only file that includes abti.h is whitebox.c) */
#ifndef WHITEBOX_H
#define WHITEBOX_H
#include <abt.h>
#include <stdint.h>
void wb_install(void); /* per-sim-thread identity for external threads */
int wb_pool_num_blocked(ABT_pool pool);
int wb_pool_num_scheds(ABT_pool pool);
const void *wb_thread_state_addr(ABT_thread th);
int wb_thread_state(ABT_thread th);
uint32_t wb_thread_request(ABT_thread th);
void *wb_thread_stacktop(ABT_thread th);
size_t wb_thread_stacksize(ABT_thread th);
const void *wb_thread_ctx(ABT_thread th);
int wb_thread_is_in_pool(ABT_thread th);
#endif
