/* white-box accessors (the only file that includes abti.h is whitebox.c) */
#ifndef WHITEBOX_H
#define WHITEBOX_H
#include <abt.h>
#include <stdint.h>
void wb_install(void); /* per-sim-thread identity for external threads */
int wb_pool_num_blocked(ABT_pool pool);
int wb_pool_num_scheds(ABT_pool pool);
const void *wb_thread_state_addr(ABT_thread th);
int wb_thread_state(ABT_thread th);
uint32_t wb_thread_request(ABT_thread th);
void *wb_thread_stacktop(ABT_thread th);
size_t wb_thread_stacksize(ABT_thread th);
const void *wb_thread_ctx(ABT_thread th);
int wb_thread_is_in_pool(ABT_thread th);
const void *wb_thread_migration_target(ABT_thread th);
/* white-box memory-pool driver (ABTI_mem_pool_*): element = [ptr, ptr+elem_size), the pool's
 * own header lives at ptr+hdr_off while the element is free */
typedef struct wb_mp wb_mp;
wb_mp *wb_mp_create(size_t nhdr_per_bucket, size_t elem_size, size_t hdr_off, size_t page_size, int lp_kind, int use_mprotect);
int wb_mp_local_init(wb_mp *m, int idx);
void *wb_mp_alloc(wb_mp *m, int idx);
void wb_mp_free(wb_mp *m, int idx, void *elem);
void wb_mp_local_destroy(wb_mp *m, int idx);
void wb_mp_destroy(wb_mp *m);
size_t wb_mp_header_bytes(void);
void wb_local_pool_access(const void *pool);
void wb_local_pool_reset(const void *pool);
/* M-waitlist (events 1-5, 8, 9 of abtd_verif.h) */
void wb_waitlist_event(int kind, const void *obj, const void *who);
void wb_waitlist_stats(unsigned long *events, unsigned long *checks);
const void *wb_cond_waitlist(ABT_cond cond);
int wb_waitlist_len(const void *wl); /* elements the reference model holds for a wait list */
#endif
