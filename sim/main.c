/* abtsim driver: zygote, fork-per-run, result lines, replay */
#define _GNU_SOURCE
#include "sim_int.h"
#include "whitebox.h"
#include <stdlib.h>
#include <string.h>
#include <errno.h>
#include <unistd.h>
#include <signal.h>
#include <sys/time.h>
#include <time.h>
#include <fcntl.h>
#include <sys/mman.h>
#include <sys/wait.h>
#include <sys/personality.h>
#include <sys/prctl.h>

#define MAXWL 128
const sim_workload *sim_workloads[MAXWL];
int sim_nworkloads;
void sim_register_workload(const sim_workload *w)
{
    if (sim_nworkloads < MAXWL)
        sim_workloads[sim_nworkloads++] = w;
}

static const char *g_variant = "V0";
const char *sim_variant(void)
{
    return g_variant;
}

static int g_out_fd = 1;
static const char *g_record_path;
static void write_trace_file(const char *path);
static int g_want_note;
static int g_result_written;
static struct timespec g_t0;

static void merge_shared(void)
{
    if (!SH)
        return;
    SH->runs++;
    SH->steps += G.steps;
    SH->simtime_ns += G.now - 1000000000ULL * 1000;
    SH->switches += G.switches;
    SH->jumps += G.jumps;
    SH->ctx_switches += G.ctx_switches;
    if (G.steps > SH->maxsteps)
        SH->maxsteps = G.steps;
    for (int i = 0; i < SIM_F_N; i++)
        SH->fired[i] += G.fired[i];
    SH->strat_runs[G.strat]++;
    for (int i = 0; i < sim_nreach; i++) {
        int j;
        for (j = 0; j < SH->nreach; j++)
            if (!strcmp(SH->reach[j].name, sim_reach[i].name))
                break;
        if (j == SH->nreach) {
            if (SH->nreach >= SIM_MAX_REACH)
                continue;
            memcpy(SH->reach[j].name, sim_reach[i].name, sizeof sim_reach[i].name);
            SH->reach[j].count = 0;
            SH->nreach++;
        }
        SH->reach[j].count += sim_reach[i].count;
    }
    if (G.wl) {
        int j;
        for (j = 0; j < 32 && SH->scen_names[j][0]; j++)
            if (!strcmp(SH->scen_names[j], G.wl->name))
                break;
        if (j < 32) {
            if (!SH->scen_names[j][0])
                strncpy(SH->scen_names[j], G.wl->name, 31);
            SH->scen_runs[j]++;
        }
    }
}

static void sanitize(char *s)
{
    for (; *s; s++)
        if (*s == '\n' || *s == '\r' || *s == '\t')
            *s = ' ';
}

void sim_write_result(const char *status, const char *cls, const char *msg)
{
    static char line[8192];
    char tailbuf[2600];
    char lim[400];
    if (g_result_written)
        return;
    g_result_written = 1;
    if (G.steplog)
        fflush(G.steplog);
    merge_shared();
    if (G.record && g_record_path)
        write_trace_file(g_record_path);
    tailbuf[0] = 0;
    if (strcmp(status, "ok"))
        sim_dump_tail(tailbuf, sizeof tailbuf);
    sim_limits_format(lim, sizeof lim);
    int n = snprintf(line, sizeof line, "R seed=%lu f=%d st=%s cls=%s steps=%lu sw=%lu fp=%016lx sig=%016lx sim=%lu strat=%d scen=%s nt=%d lim=%s", (unsigned long)G.seed,
                     G.faults_on, status, cls && cls[0] ? cls : "-", (unsigned long)G.steps, (unsigned long)G.switches, (unsigned long)G.fp,
                     (unsigned long)G.sig, (unsigned long)(G.now - 1000000000ULL * 1000), G.strat, G.wl ? G.wl->name : "-", G.nT, lim[0] ? lim : "-");
    if (msg && msg[0]) {
        char m[1500];
        strncpy(m, msg, sizeof m - 1);
        m[sizeof m - 1] = 0;
        sanitize(m);
        n += snprintf(line + n, sizeof line - (size_t)n, " msg=%s", m);
    }
    if (tailbuf[0])
        n += snprintf(line + n, sizeof line - (size_t)n, " |tail= %s", tailbuf);
    if ((g_want_note || strcmp(status, "ok")) && G.note_len) {
        G.note[G.note_len] = 0;
        sanitize(G.note);
        n += snprintf(line + n, sizeof line - (size_t)n, " |note= %s", G.note);
    }
    if (n > (int)sizeof line - 2)
        n = (int)sizeof line - 2;
    line[n++] = '\n';
    ssize_t w = write(g_out_fd, line, (size_t)n);
    (void)w;
}

void sim_quarantine_check(void);
void sim_result_ok(void)
{
    sim_quarantine_check();
    if (G.plain_points)
        sim_count("sim.plain_access_sched_points", G.plain_points);
    sim_write_result("ok", "-", "");
#ifdef SIM_GCOV
    {
        extern void __gcov_dump(void);
        __gcov_dump();
    }
#endif
    _exit(0);
}

/* ------------------------------------------------------------------ child */
static char altstack[1 << 16];
static void on_signal(int sig)
{
    char cls[48];
    const char *nm = sig == SIGSEGV ? "SIGSEGV" : sig == SIGBUS ? "SIGBUS" : sig == SIGABRT ? "SIGABRT" : sig == SIGFPE ? "SIGFPE" : sig == SIGILL ? "SIGILL" : sig == SIGALRM ? "SIGALRM" : "SIG?";
    if (sig == SIGALRM) {
        sim_write_result("infra", "infra:wallclock", "wall-clock safety net expired");
        _exit(2);
    }
    if (sig == SIGVTALRM) {
        /* Fires every 3 s of CPU time consumed by this run (independent of machine load).  A run
         * that burns 12 s of CPU without passing a single scheduling point (every atomic access,
         * system call and context switch of the library is one) is inside a loop that cannot
         * observe any other thread: an unbounded loop in the code under test. */
        static uint64_t last_steps = ~(uint64_t)0;
        static int stuck;
        if (G.steps == last_steps) {
            if (++stuck >= 4) {
                sim_write_result("viol", "hang:loop-without-sync-point", "12 s of CPU time without reaching any atomic access, system call or context switch");
                _exit(3);
            }
        } else {
            stuck = 0;
            last_steps = G.steps;
        }
        return;
    }
    snprintf(cls, sizeof cls, "signal:%s", nm);
    sim_write_result("crash", cls, "fatal signal inside the simulated run");
    _exit(4);
}

static void *zy_sp;
static void run_wrapper(void *arg)
{
    (void)arg;
    G.wl->run();
    {
        unsigned long ev, ck;
        wb_waitlist_stats(&ev, &ck);
        if (ev) {
            sim_count("waitlist.monitor_events", ev);
            sim_count("waitlist.monitor_list_comparisons", ck);
        }
    }
    sim_result_ok();
}

static const sim_workload *pick_workload(void)
{
    const sim_workload *c[MAXWL];
    int n = 0, tw = 0;
    for (int i = 0; i < sim_nworkloads; i++)
        if (!strcmp(sim_workloads[i]->prop, G.prop)) {
            c[n++] = sim_workloads[i];
            tw += sim_workloads[i]->weight;
        }
    if (!n)
        return NULL;
    if (G.scenario >= 0)
        return c[G.scenario % n];
    int r = (int)plan_n((uint32_t)tw);
    for (int i = 0; i < n; i++) {
        if (r < c[i]->weight)
            return c[i];
        r -= c[i]->weight;
    }
    return c[n - 1];
}

static void child_run(void)
{
    stack_t ss = { .ss_sp = altstack, .ss_size = sizeof altstack, .ss_flags = 0 };
    sigaltstack(&ss, NULL);
    struct sigaction sa;
    memset(&sa, 0, sizeof sa);
    sa.sa_handler = on_signal;
    sa.sa_flags = SA_ONSTACK | SA_NODEFER;
    int sigs[] = { SIGSEGV, SIGBUS, SIGABRT, SIGFPE, SIGILL, SIGALRM, SIGVTALRM };
    for (unsigned i = 0; i < sizeof sigs / sizeof sigs[0]; i++)
        sigaction(sigs[i], &sa, NULL);
    alarm(600);
    struct itimerval itv = { { 3, 0 }, { 3, 0 } };
    setitimer(ITIMER_VIRTUAL, &itv, NULL);
    wb_install();
    sim_run_begin();
    G.wl = pick_workload();
    if (!G.wl) {
        sim_write_result("infra", "infra:no-workload", G.prop);
        _exit(2);
    }
    G.T[0].fn2 = run_wrapper;
    G.cur = 0;
    sim_swap(&zy_sp, G.T[0].sp);
    _exit(2); /* unreachable */
}

/* ------------------------------------------------------------------ trace files */
static void write_trace_file(const char *path)
{
    FILE *f = fopen(path, "w");
    if (!f)
        return;
    for (uint32_t i = 0; i < G.ntrace; i++)
        fprintf(f, "T %u %u\n", G.trace[i].tid, G.trace[i].count);
    for (uint32_t i = 0; i < G.nevents; i++)
        fprintf(f, "E %lu %c %d %lu\n", (unsigned long)G.events[i].step, G.events[i].type, G.events[i].arg, (unsigned long)G.events[i].val);
    fclose(f);
}
static int read_trace_file(const char *path)
{
    FILE *f = fopen(path, "r");
    if (!f)
        return -1;
    char l[128];
    while (fgets(l, sizeof l, f)) {
        if (l[0] == 'T' && G.ntrace < SIM_MAX_TRACE) {
            unsigned a, b;
            if (sscanf(l + 1, "%u %u", &a, &b) == 2) {
                G.trace[G.ntrace].tid = (uint16_t)a;
                G.trace[G.ntrace].count = b;
                G.ntrace++;
            }
        } else if (l[0] == 'E' && G.nevents < SIM_MAX_EVENTS) {
            unsigned long s, v;
            char t;
            int a;
            if (sscanf(l + 1, "%lu %c %d %lu", &s, &t, &a, &v) == 4) {
                G.events[G.nevents].step = s;
                G.events[G.nevents].type = t;
                G.events[G.nevents].arg = a;
                G.events[G.nevents].val = v;
                G.nevents++;
            }
        }
    }
    fclose(f);
    return 0;
}

/* ------------------------------------------------------------------ main */
static void *shared_alloc(size_t sz)
{
    void *p = mmap(0, sz, PROT_READ | PROT_WRITE, MAP_SHARED | MAP_ANONYMOUS, -1, 0);
    return p == MAP_FAILED ? NULL : p;
}

static void print_aggregate(void)
{
    static char b[16384];
    int n = snprintf(b, sizeof b, "A runs=%lu steps=%lu simns=%lu sw=%lu jumps=%lu ctxsw=%lu maxsteps=%lu fired=", (unsigned long)SH->runs, (unsigned long)SH->steps,
                     (unsigned long)SH->simtime_ns, (unsigned long)SH->switches, (unsigned long)SH->jumps, (unsigned long)SH->ctx_switches, (unsigned long)SH->maxsteps);
    for (int i = 0; i < SIM_F_N; i++)
        n += snprintf(b + n, sizeof b - (size_t)n, "%s%lu", i ? "," : "", (unsigned long)SH->fired[i]);
    n += snprintf(b + n, sizeof b - (size_t)n, " strat=");
    for (int i = 0; i < STRAT_N; i++)
        n += snprintf(b + n, sizeof b - (size_t)n, "%s%lu", i ? "," : "", (unsigned long)SH->strat_runs[i]);
    n += snprintf(b + n, sizeof b - (size_t)n, " scen=");
    for (int i = 0; i < 32 && SH->scen_names[i][0]; i++)
        n += snprintf(b + n, sizeof b - (size_t)n, "%s%s:%lu", i ? "," : "", SH->scen_names[i], (unsigned long)SH->scen_runs[i]);
    n += snprintf(b + n, sizeof b - (size_t)n, " reach=");
    for (int i = 0; i < SH->nreach && n < (int)sizeof b - 80; i++)
        n += snprintf(b + n, sizeof b - (size_t)n, "%s%s:%lu", i ? "," : "", SH->reach[i].name, (unsigned long)SH->reach[i].count);
    b[n++] = '\n';
    ssize_t w = write(g_out_fd, b, (size_t)n);
    (void)w;
}

static double elapsed(void)
{
    struct timespec t;
    clock_gettime(CLOCK_MONOTONIC, &t);
    return (double)(t.tv_sec - g_t0.tv_sec) + (double)(t.tv_nsec - g_t0.tv_nsec) * 1e-9;
}

int main(int argc, char **argv)
{
    /* deterministic address space: re-exec once with ASLR off */
    /* ... and with a canonical environment: glibc keeps the environment on the heap once
     * setenv() is used, so the number and size of inherited variables would shift heap (and
     * stack) addresses, and some runs hash addresses (unit handles that are thread handles).
     * Only the variables this program and its sanitizer / coverage run-times read survive. */
    int pers = personality(0xffffffff);
    if (!getenv("ABTSIM_CANON") && !getenv("ABTSIM_NO_REEXEC")) {
        static char *envp[64];
        static const char *keep[] = { "VERIF_", "WL_", "ABTSIM_", "ASAN_OPTIONS=", "UBSAN_OPTIONS=", "LSAN_OPTIONS=", "GCOV_", "LLVM_PROFILE_FILE=" };
        int n = 0;
        extern char **environ;
        for (char **e = environ; *e && n < 60; e++)
            for (unsigned k = 0; k < sizeof keep / sizeof keep[0]; k++)
                if (!strncmp(*e, keep[k], strlen(keep[k]))) {
                    envp[n++] = *e;
                    break;
                }
        envp[n++] = (char *)"ABTSIM_CANON=1";
        envp[n] = NULL;
        if (pers != -1 && !(pers & ADDR_NO_RANDOMIZE))
            personality(pers | ADDR_NO_RANDOMIZE);
        execve("/proc/self/exe", argv, envp);
    }
    clock_gettime(CLOCK_MONOTONIC, &g_t0);
#ifdef PR_SET_THP_DISABLE
    prctl(PR_SET_THP_DISABLE, 1, 0, 0, 0); /* zero-filling 2 MiB pages dominates short runs */
#endif
    uint64_t seed_start = 1, count = 1, stride = 1;
    int faults = 2; /* 0 off, 1 on, 2 alternate by seed parity */
    int samples = 0, max_viol = 3;
    double budget = 0;
    const char *trace_in = NULL;
    G.scenario = -1;
    G.prop = "C00";
    for (int i = 1; i < argc; i++) {
        const char *a = argv[i];
#define NEXT (i + 1 < argc ? argv[++i] : "")
        if (!strcmp(a, "--prop"))
            G.prop = NEXT;
        else if (!strcmp(a, "--scenario"))
            G.scenario = atoi(NEXT);
        else if (!strcmp(a, "--seed-start") || !strcmp(a, "--seed"))
            seed_start = strtoull(NEXT, 0, 0);
        else if (!strcmp(a, "--count"))
            count = strtoull(NEXT, 0, 0);
        else if (!strcmp(a, "--stride"))
            stride = strtoull(NEXT, 0, 0);
        else if (!strcmp(a, "--faults"))
            faults = atoi(NEXT);
        else if (!strcmp(a, "--tier"))
            G.tier = atoi(NEXT);
        else if (!strcmp(a, "--variant"))
            g_variant = NEXT;
        else if (!strcmp(a, "--samples"))
            samples = atoi(NEXT);
        else if (!strcmp(a, "--max-viol"))
            max_viol = atoi(NEXT);
        else if (!strcmp(a, "--budget"))
            budget = atof(NEXT);
        else if (!strcmp(a, "--record"))
            g_record_path = NEXT;
        else if (!strcmp(a, "--steplog"))
            G.steplog = fopen(NEXT, "w");
        else if (!strcmp(a, "--trace-file"))
            trace_in = NEXT;
        else if (!strcmp(a, "--limit")) {
            char *kv = strdup(NEXT);
            char *eq = strchr(kv, '=');
            if (eq) {
                *eq = 0;
                sim_limit_set(kv, atoi(eq + 1));
            }
        } else if (!strcmp(a, "--list")) {
            for (int k = 0; k < sim_nworkloads; k++)
                printf("%s %s %d\n", sim_workloads[k]->prop, sim_workloads[k]->name, sim_workloads[k]->weight);
            return 0;
        } else {
            fprintf(stderr, "abtsim: unknown argument %s\n", a);
            return 2;
        }
    }
    SH = shared_alloc(sizeof *SH);
    if (g_record_path || trace_in) {
        G.trace = shared_alloc(sizeof(trace_seg) * SIM_MAX_TRACE);
        G.events = shared_alloc(sizeof(trace_ev) * SIM_MAX_EVENTS);
    }
    if (!SH)
        return 2;
    if (trace_in) {
        if (read_trace_file(trace_in) != 0) {
            fprintf(stderr, "abtsim: cannot read %s\n", trace_in);
            return 2;
        }
        G.replay_trace = 1;
    }
    if (g_record_path)
        G.record = 1;
    int nviol = 0;
    uint64_t done = 0;
    for (uint64_t k = 0; k < count; k++) {
        if (budget > 0 && (k & 7) == 0 && elapsed() > budget)
            break;
        uint64_t seed = seed_start + k * stride;
        G.seed = seed;
        G.faults_on = faults == 2 ? (int)(seed & 1) : faults;
        g_want_note = (int)k < samples;
        uint64_t runs_before = SH->runs;
        pid_t pid = fork();
        if (pid < 0)
            return 2;
        if (pid == 0) {
            child_run();
            _exit(2);
        }
        int st = 0;
        while (waitpid(pid, &st, 0) < 0 && errno == EINTR)
            ;
        done++;
        int code = WIFEXITED(st) ? WEXITSTATUS(st) : -1;
        if (SH->runs == runs_before) {
            /* the child died without reporting */
            char b[256];
            int n = snprintf(b, sizeof b, "R seed=%lu f=%d st=crash cls=signal:%d steps=0 sw=0 fp=0 sig=0 sim=0 strat=-1 scen=- nt=0 lim=- msg=child died without a result (status 0x%x)\n",
                             (unsigned long)seed, G.faults_on, WIFSIGNALED(st) ? WTERMSIG(st) : 0, st);
            ssize_t w = write(g_out_fd, b, (size_t)n);
            (void)w;
            SH->runs++;
            code = 4;
        }
        if (code == 3 || code == 4) {
            if (++nviol >= max_viol)
                break;
        }
    }
    print_aggregate();
    (void)done;
    return 0;
}

