#ifndef LIN_H
#define LIN_H
#include <stdint.h>
#define LIN_MAX_OPS 48
#define LIN_MAX_TOK 16
enum { LIN_PUSH = 0, LIN_POP, LIN_REMOVE, LIN_SIZE };
enum { LIN_HEAD = 0, LIN_TAIL = 1 };
typedef struct lin_op {
    uint64_t inv, ret; /* simulator step numbers */
    int client, kind, end;
    int max;  /* LIN_POP: maximum number of units requested; LIN_SIZE: observed size */
    int ntok; /* units pushed / returned */
    int tok[LIN_MAX_TOK];
} lin_op;
/* 1: linearizable, 0: not linearizable, -1: undecided (node cap) */
int lin_check(const lin_op *ops, int n, long cap, int *final_size);
int lin_format(const lin_op *ops, int n, char *buf, int sz);
#endif
