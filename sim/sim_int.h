/* internal definitions shared by core.c, stubs.c, main.c */
#ifndef SIM_INT_H
#define SIM_INT_H
#include "abtsim.h"
#include <stdio.h>

#define SIM_MAXT 512
#define SIM_STACK_SZ (1u << 20)

enum { ST_FREE = 0, ST_RUNNABLE, ST_BLOCKED, ST_DONE };
enum { WK_NONE = 0, WK_MUTEX, WK_COND, WK_FUTEX, WK_SLEEP, WK_JOIN, WK_BARRIER };
enum { WR_NONE = 0, WR_WAKE, WR_TIMEOUT, WR_SPURIOUS };
enum { ROLE_PRIMARY = 0, ROLE_ES, ROLE_EXT };

typedef struct sthread {
    void *sp;
    int id, state, role;
    void *(*fn)(void *);
    void (*fn2)(void *);
    void *arg, *ret;
    void *tls;
    int err;
    void *stack;
    int wait_kind;
    const void *wait_addr;
    uint64_t wake_time; /* 0: none */
    int wake_reason;
    int joiner; /* thread blocked in join on me, or -1 */
    int ro_streak, spin_limit;
    uint64_t stall_until;
    uint64_t prio;
    const void *cur_ctx;
    const void *last_addr;
    /* allocation fault arming (per thread) */
    int arm_k, arm_kinds, arm_fired, cnt_kinds, cnt;
    uint64_t nsteps;
    uint64_t born; /* G.steps when the thread was created */
} sthread;

enum { STRAT_RANDOM = 0, STRAT_PCT, STRAT_STALL, STRAT_TARGET, STRAT_SLOW, STRAT_RR, STRAT_N };

#define SIM_MAX_REACH 160
#define SIM_MAX_TRACE (1u << 20)
#define SIM_MAX_EVENTS 4096
#define SIM_NOTE_SZ 3000

typedef struct trace_seg {
    uint16_t tid;
    uint32_t count;
} trace_seg;
typedef struct trace_ev {
    uint64_t step;
    int type; /* 'J' clock jump(all idle), 'S' spurious wake tid, 'E' early sleep wake tid, 'C' clock fault jump, 'X' stall */
    int arg;
    uint64_t val;
} trace_ev;

typedef struct sim_globals {
    /* configuration of this run */
    uint64_t seed;
    const char *prop;
    int scenario; /* -1: pick from plan stream */
    int tier;
    int faults_on;
    int record; /* record trace */
    int replay_trace;
    uint64_t rs[SIM_RS_N];
    /* strategy */
    int strat;
    int stick;           /* percent */
    int pct_d;           /* number of change points */
    uint64_t pct_cp[8];
    int stall_rate, stall_len_max;
    int tgt_n;
    int tgt_site[3], tgt_arrival[3], tgt_len[3];
    int slow_victim;
    uint64_t slow_from, slow_to;
    int rr_quantum, rr_left;
    uint64_t adv_steps; /* adversarial phase length */
    uint64_t quantum;
    uint64_t timer_slack;
    uint32_t fault_mask;
    int fault_budget;
    int spurious_rate; /* 1/rate per check */
    /* state */
    sthread T[SIM_MAXT];
    int nT, cur;
    uint64_t steps, switches, now, jumps, ctx_switches;
    uint64_t last_progress;
    /* variant VP: scheduling points at plain (non-atomic) loads and stores of the library */
    uint64_t plain_rng, plain_points;
    int64_t plain_countdown;
    uint32_t plain_mean;
    uint64_t fp, sig;
    int last_site;
    uint64_t fired[SIM_F_N];
    /* trace */
    trace_seg *trace;
    uint32_t ntrace, trace_pos, trace_left;
    trace_ev *events;
    uint32_t nevents, event_pos;
    /* notes */
    char note[SIM_NOTE_SZ];
    int note_len;
    const sim_workload *wl;
    /* callbacks */
    sim_event_cb event_cb;
    sim_store_cb store_cb;
    sim_step_cb step_cb;
    sim_diag_cb diag_cb;
    int in_cb;
    int frozen; /* reporting: hooks are inert */
    FILE *steplog; /* debugging aid: --steplog FILE logs every scheduling point */
} sim_globals;

extern sim_globals G;

/* core */
void sim_run_begin(void);
void sim_sched_point(int kind, const char *file, int line);
int sim_block(int kind, const void *addr, uint64_t deadline); /* returns wake reason */
void sim_wake(int tid, int reason);
void sim_hang_report(const char *what) __attribute__((noreturn));
void sim_result_ok(void) __attribute__((noreturn));
int sim_site_id(const char *file, int line);
const char *sim_site_name(int id, int *line);
void sim_dump_tail(char *buf, int sz);
extern void sim_swap(void **save_sp, void *new_sp);

/* limits / overrides */
void sim_limit_set(const char *name, int v);
int sim_limits_format(char *buf, int sz);

/* reach counters */
typedef struct reach_ent {
    char name[48];
    uint64_t count;
} reach_ent;
extern reach_ent sim_reach[SIM_MAX_REACH];
extern int sim_nreach;

/* shared aggregate between zygote and run children */
typedef struct sim_shared {
    uint64_t runs, steps, simtime_ns, switches, jumps, ctx_switches;
    uint64_t fired[SIM_F_N];
    uint64_t strat_runs[STRAT_N];
    uint64_t maxsteps;
    uint64_t lin_undecided, lin_checked;
    reach_ent reach[SIM_MAX_REACH];
    int nreach;
    uint64_t scen_runs[32];
    char scen_names[32][32];
} sim_shared;
extern sim_shared *SH;

/* ledger (stubs.c) */
void sim_ledger_reset(void);

/* workloads */
extern const sim_workload *sim_workloads[];
extern int sim_nworkloads;

void sim_write_result(const char *status, const char *cls, const char *msg);

#endif
