/* white-box layer: everything that depends on Argobots' internal headers lives here.
 * If an upstream refactor makes this file uncompilable the build fails with exit 2
 * (infrastructure), never with a verdict. */
#include "abti.h"
#include "whitebox.h"
#include "sim_int.h"

static void *sim_local_ptr(void)
{
    /* Argobots identifies an external thread by the address of its thread-local
     * variable; all sim threads share one OS thread, so give each its own address. */
    return (void *)&G.T[G.cur].tls;
}

void wb_install(void)
{
    gp_ABTI_local_func.get_local_ptr_f = sim_local_ptr;
}

int wb_pool_num_blocked(ABT_pool pool)
{
    ABTI_pool *p = ABTI_pool_get_ptr(pool);
    return (int)__atomic_load_n(&p->num_blocked.val, __ATOMIC_RELAXED);
}
int wb_pool_num_scheds(ABT_pool pool)
{
    ABTI_pool *p = ABTI_pool_get_ptr(pool);
    return (int)__atomic_load_n(&p->num_scheds.val, __ATOMIC_RELAXED);
}
const void *wb_thread_state_addr(ABT_thread th)
{
    return &ABTI_thread_get_ptr(th)->state;
}
int wb_thread_state(ABT_thread th)
{
    return __atomic_load_n(&ABTI_thread_get_ptr(th)->state.val, __ATOMIC_RELAXED);
}
uint32_t wb_thread_request(ABT_thread th)
{
    return __atomic_load_n(&ABTI_thread_get_ptr(th)->request.val, __ATOMIC_RELAXED);
}
static ABTI_ythread *yt(ABT_thread th)
{
    return ABTI_thread_get_ythread_or_null(ABTI_thread_get_ptr(th));
}
void *wb_thread_stacktop(ABT_thread th)
{
    ABTI_ythread *y = yt(th);
    return y ? ABTD_ythread_context_get_stacktop(&y->ctx) : NULL;
}
size_t wb_thread_stacksize(ABT_thread th)
{
    ABTI_ythread *y = yt(th);
    return y ? ABTD_ythread_context_get_stacksize(&y->ctx) : 0;
}
const void *wb_thread_ctx(ABT_thread th)
{
    ABTI_ythread *y = yt(th);
    return y ? (const void *)&y->ctx : NULL;
}

int wb_thread_is_in_pool(ABT_thread th)
{
    return __atomic_load_n(&ABTI_thread_get_ptr(th)->is_in_pool.val, __ATOMIC_RELAXED);
}

/* ------------------------------------------------------------------ memory-pool driver */
#define WB_MP_LOCALS 4
struct wb_mp {
    ABTI_mem_pool_global_pool g;
    ABTI_mem_pool_local_pool l[WB_MP_LOCALS];
    int l_init[WB_MP_LOCALS];
    size_t elem_size, hdr_off;
};

wb_mp *wb_mp_create(size_t nhdr_per_bucket, size_t elem_size, size_t hdr_off, size_t page_size, int lp_kind, int use_mprotect)
{
    wb_mp *m = (wb_mp *)calloc(1, sizeof *m);
    ABTU_MEM_LARGEPAGE_TYPE req[4];
    int nreq = 0;
    /* request lists with fall-back, as ABTI_mem_init builds them */
    if (lp_kind == 3)
        req[nreq++] = ABTU_MEM_LARGEPAGE_MMAP_HUGEPAGE;
    if (lp_kind >= 2)
        req[nreq++] = ABTU_MEM_LARGEPAGE_MMAP;
    if (lp_kind >= 1)
        req[nreq++] = ABTU_MEM_LARGEPAGE_MEMALIGN;
    req[nreq++] = ABTU_MEM_LARGEPAGE_MALLOC;
    ABTI_mem_pool_global_pool_mprotect_config mp;
    memset(&mp, 0, sizeof mp);
    if (use_mprotect) {
        mp.enabled = ABT_TRUE;
        mp.check_error = ABT_FALSE;
        mp.offset = 0;
        mp.page_size = 4096;
        mp.alignment = 4096;
    }
    m->elem_size = elem_size;
    m->hdr_off = hdr_off;
    ABTI_mem_pool_init_global_pool(&m->g, nhdr_per_bucket, elem_size, hdr_off, page_size, req, (uint32_t)nreq, page_size < 4096 ? 4096 : page_size,
                                   use_mprotect ? &mp : NULL);
    return m;
}
int wb_mp_local_init(wb_mp *m, int idx)
{
    int r = ABTI_mem_pool_init_local_pool(&m->l[idx], &m->g);
    if (r == ABT_SUCCESS)
        m->l_init[idx] = 1;
    return r;
}
void *wb_mp_alloc(wb_mp *m, int idx)
{
    void *p = NULL;
    int r = ABTI_mem_pool_alloc(&m->l[idx], &p);
    if (r != ABT_SUCCESS)
        return NULL;
    return (char *)p - m->hdr_off;
}
void wb_mp_free(wb_mp *m, int idx, void *elem)
{
    ABTI_mem_pool_free(&m->l[idx], (char *)elem + m->hdr_off);
}
void wb_mp_local_destroy(wb_mp *m, int idx)
{
    if (m->l_init[idx]) {
        ABTI_mem_pool_destroy_local_pool(&m->l[idx]);
        m->l_init[idx] = 0;
    }
}
void wb_mp_destroy(wb_mp *m)
{
    ABTI_mem_pool_destroy_global_pool(&m->g);
    free(m);
}
size_t wb_mp_header_bytes(void)
{
    return sizeof(ABTI_mem_pool_header);
}

/* ------------------------------------------------------------------ ASan support (variant VS)
 * Argobots abandons stacks without unwinding (exit, jump) and recycles them; stale redzone
 * poison would produce false stack-buffer reports.  Unpoison a context's whole stack when
 * it is abandoned and when a fresh context is about to start on it. */
#if defined(__SANITIZE_ADDRESS__)
void __asan_unpoison_memory_region(void const volatile *addr, size_t size);
static void unpoison_ctx_stack(const void *p_ctx)
{
    const ABTD_ythread_context *c = (const ABTD_ythread_context *)p_ctx;
    if (!c || !c->p_stacktop || !c->stacksize)
        return;
    __asan_unpoison_memory_region((char *)c->p_stacktop - c->stacksize, c->stacksize);
}
void wb_asan_ctxswitch(const void *p_abandoned, const void *p_new)
{
    if (p_abandoned)
        unpoison_ctx_stack(p_abandoned);
    if (p_new && !ABTDI_fcontext_is_created((fcontext_t *)&((ABTD_ythread_context *)p_new)->ctx))
        unpoison_ctx_stack(p_new);
}
#else
void wb_asan_ctxswitch(const void *p_abandoned, const void *p_new)
{
    (void)p_abandoned;
    (void)p_new;
}
#endif

/* ---- M-local-pool: a stream-local memory pool (ABTI_xstream.mem_pool_stack / mem_pool_desc)
 * is used without any synchronisation, so it must be used by one OS thread at a time, with a
 * happens-before edge at every hand-over.  In the simulator two sim threads never interleave
 * inside such an operation (it contains no scheduling point), so a foreign access would be
 * harmless here and a data race in reality: it is reported as soon as it happens.
 * Hand-overs that are ordered, and therefore accepted:
 *   - the previous user has ended (stream joined; the pool is then used by whoever revives or
 *     frees the stream);
 *   - the new user was created after the previous user's last access (pthread_create: the
 *     creator sets up the new stream's scheduler from the new stream's pool, then starts it);
 *   - the previous user is the stream's own OS thread, parked after a join.
 * An entry is dropped when the pool is initialised or destroyed (the address may be reused).
 * The two pools for external threads in ABTI_global are protected by spinlocks: exempt. ---- */
#define WB_LP_N 128
static struct {
    const void *pool;
    int owner;
    uint64_t last;
} wb_lp[WB_LP_N];
static int wb_nlp;
void wb_local_pool_reset(const void *pool)
{
    /* the pool starts or ends its life: whoever used this address before is history */
    for (int i = 0; i < wb_nlp; i++)
        if (wb_lp[i].pool == pool) {
            wb_lp[i] = wb_lp[--wb_nlp];
            return;
        }
}
void wb_local_pool_access(const void *pool)
{
    ABTI_global *g = gp_ABTI_global;
    if (g && (pool == (const void *)&g->mem_pool_stack_ext || pool == (const void *)&g->mem_pool_desc_ext)) {
        /* the two pools shared by external threads: each has a spinlock of its own, which
         * must be held (by the caller) whenever the pool is used */
        int is_stack = pool == (const void *)&g->mem_pool_stack_ext;
        uint8_t locked = __atomic_load_n(is_stack ? &g->mem_pool_stack_lock.val.val : &g->mem_pool_desc_lock.val.val, __ATOMIC_RELAXED);
        if (!locked)
            sim_fail("M-local-pool:ext-pool-without-its-lock", "the memory pool for %s of external threads is used by sim thread %d while its spinlock is not held", is_stack ? "stacks" : "descriptors",
                     G.cur);
        return;
    }
    int cur = G.cur;
    for (int i = 0; i < wb_nlp; i++)
        if (wb_lp[i].pool == pool) {
            int o = wb_lp[i].owner;
            if (o != cur) {
                int ended = G.T[o].state == ST_DONE || G.T[o].state == ST_FREE;
                int created_later = G.T[cur].born >= wb_lp[i].last;
                /* a joined stream's OS thread stays alive, parked on the condition variable of
                 * its own ABTI_xstream (the structure that also contains the pool) until it is
                 * revived or freed: the join ordered its accesses before ours */
                const char *wa = (const char *)G.T[o].wait_addr;
                int parked = G.T[o].state == ST_BLOCKED && wa && wa > (const char *)pool - (long)sizeof(ABTI_xstream) && wa < (const char *)pool + (long)sizeof(ABTI_xstream);
                if (!ended && !created_later && !parked)
                    sim_fail("M-local-pool:foreign-access",
                             "the stream-local memory pool %p, last used by sim thread %d at step %lu, is accessed by sim thread %d (created at step %lu) while thread %d is alive: unsynchronised, a data race",
                             pool, o, (unsigned long)wb_lp[i].last, cur, (unsigned long)G.T[cur].born, o);
                wb_lp[i].owner = cur;
            }
            wb_lp[i].last = G.steps;
            return;
        }
    if (wb_nlp < WB_LP_N) {
        wb_lp[wb_nlp].pool = pool;
        wb_lp[wb_nlp].owner = cur;
        wb_lp[wb_nlp++].last = G.steps;
    }
}

/* ---- M-waitlist: reference model of every ABTI_waitlist (mutex, condition variable, barrier,
 * eventual, future), driven by the events of abti_waitlist.h, which are all issued while the
 * lock protecting the list is held.  The reference is the *set* of elements enqueued and not yet
 * dequeued (order is not part of any property); after every event that leaves the list in a
 * consistent state the real list (p_head, p_next..., p_tail) must be a well-formed chain over
 * exactly that set, and a timed waiter that is not the head must have a correct back link (the
 * time-out path relies on it).  A signal pass dequeues exactly one element if there was one, a
 * broadcast pass every element. ---- */
#define WB_WL_N 64
#define WB_WL_MAX 256
typedef struct wb_wlrec {
    const ABTI_waitlist *wl;
    int n;
    const ABTI_thread *e[WB_WL_MAX];
    unsigned char timed[WB_WL_MAX];
    int in_pass, pass_n0, pass_deq;
} wb_wlrec;
static wb_wlrec wb_wl[WB_WL_N];
static int wb_nwl;
static unsigned long wb_wl_events, wb_wl_checks;
static int wb_wl_off; /* a table overflowed: the monitor is off for the rest of the run */

static wb_wlrec *wl_find(const ABTI_waitlist *wl, int add)
{
    for (int i = 0; i < wb_nwl; i++)
        if (wb_wl[i].wl == wl)
            return &wb_wl[i];
    if (!add)
        return NULL;
    if (wb_nwl == WB_WL_N) {
        wb_wl_off = 1;
        return NULL;
    }
    wb_wlrec *r = &wb_wl[wb_nwl++];
    memset(r, 0, sizeof *r);
    r->wl = wl;
    return r;
}
static void wl_drop_if_empty(wb_wlrec *r)
{
    if (r && r->n == 0 && !r->in_pass) {
        *r = wb_wl[--wb_nwl];
    }
}
static int wl_index(wb_wlrec *r, const ABTI_thread *t)
{
    for (int i = 0; i < r->n; i++)
        if (r->e[i] == t)
            return i;
    return -1;
}
static void wl_remove(wb_wlrec *r, int i)
{
    r->n--;
    r->e[i] = r->e[r->n];
    r->timed[i] = r->timed[r->n];
}
/* compare the real list with the reference set */
static void wl_verify(const ABTI_waitlist *wl, wb_wlrec *r, const char *after)
{
    int nref = r ? r->n : 0;
    wb_wl_checks++;
    const ABTI_thread *p = wl->p_head, *prev = NULL;
    int cnt = 0;
    if (!p && wl->p_tail)
        sim_fail("waitlist:damaged", "after %s: wait list %p has no head but a tail %p (%d waiters expected)", after, (const void *)wl, (const void *)wl->p_tail, nref);
    while (p) {
        if (cnt >= nref)
            sim_fail("waitlist:damaged", "after %s: wait list %p links more than the %d elements that are waiting (element #%d: %p)%s", after, (const void *)wl, nref, cnt,
                     (const void *)p, cnt > WB_WL_MAX ? ", probably a cycle" : "");
        int i = wl_index(r, p);
        if (i < 0)
            sim_fail("waitlist:damaged", "after %s: wait list %p links element %p (position %d), which is not waiting there (already dequeued or never enqueued)", after,
                     (const void *)wl, (const void *)p, cnt);
        if (prev && r->timed[i] && p->p_prev != prev)
            sim_fail("waitlist:damaged", "after %s: timed waiter %p at position %d of wait list %p has back link %p, its predecessor is %p", after, (const void *)p, cnt,
                     (const void *)wl, (const void *)p->p_prev, (const void *)prev);
        prev = p;
        p = p->p_next;
        cnt++;
    }
    if (cnt != nref)
        sim_fail("waitlist:damaged", "after %s: wait list %p links %d elements, %d are waiting (an element was lost from the list)", after, (const void *)wl, cnt, nref);
    if (wl->p_tail != prev)
        sim_fail("waitlist:damaged", "after %s: wait list %p: tail pointer %p is not the last element %p", after, (const void *)wl, (const void *)wl->p_tail, (const void *)prev);
}
void wb_waitlist_event(int kind, const void *obj, const void *who)
{
    const ABTI_waitlist *wl = (const ABTI_waitlist *)obj;
    const ABTI_thread *t = (const ABTI_thread *)who;
    wb_wlrec *r;
    if (wb_wl_off)
        return;
    wb_wl_events++;
    switch (kind) {
        case 1: /* ENQUEUE */
        case 8: /* ENQUEUE_TIMED */
            r = wl_find(wl, 1);
            if (!r)
                return;
            if (r->in_pass)
                sim_fail("waitlist:damaged", "element %p is appended to wait list %p in the middle of a signal/broadcast pass", who, obj);
            if (wl_index(r, t) >= 0)
                sim_fail("waitlist:damaged", "element %p is appended to wait list %p, where it is already waiting", who, obj);
            if (r->n == WB_WL_MAX) {
                wb_wl_off = 1;
                return;
            }
            r->e[r->n] = t;
            r->timed[r->n++] = kind == 8;
            wl_verify(wl, r, "an enqueue");
            break;
        case 2: { /* DEQUEUE by signal/broadcast (before the wake-up) */
            r = wl_find(wl, 0);
            if (!r)
                sim_fail("waitlist:damaged", "signal/broadcast on wait list %p dequeues %p although nobody is waiting there", obj, who);
            if (!r->in_pass) {
                r->in_pass = 1;
                r->pass_n0 = r->n;
                r->pass_deq = 0;
            }
            int i = wl_index(r, t);
            if (i < 0)
                sim_fail("waitlist:damaged", "signal/broadcast on wait list %p dequeues %p, which is not waiting there (timed out, dequeued before, or never enqueued)", obj,
                         who);
            wl_remove(r, i);
            r->pass_deq++;
            break;
        }
        case 3:   /* SIGNAL_DONE */
        case 9: { /* BROADCAST_DONE */
            r = wl_find(wl, 0);
            int n0 = r ? (r->in_pass ? r->pass_n0 : r->n) : 0;
            int deq = r && r->in_pass ? r->pass_deq : 0;
            if (r)
                r->in_pass = 0;
            if (kind == 3 && deq != (n0 >= 1 ? 1 : 0))
                sim_fail("waitlist:signal-count", "a signal on wait list %p with %d waiters woke %d of them (exactly one is due when there is one)", obj, n0, deq);
            if (kind == 9 && deq != n0)
                sim_fail("waitlist:broadcast-count", "a broadcast on wait list %p with %d waiters woke %d of them", obj, n0, deq);
            wl_verify(wl, r, kind == 3 ? "a signal" : "a broadcast");
            wl_drop_if_empty(r);
            break;
        }
        case 4: { /* TIMEOUT_UNLINK */
            r = wl_find(wl, 0);
            int i = r ? wl_index(r, t) : -1;
            if (i < 0)
                sim_fail("waitlist:damaged", "timed waiter %p unlinks itself from wait list %p after it had been dequeued by a signal: the signal is lost and the list is changed by a non-member", who, obj);
            wl_remove(r, i);
            wl_verify(wl, r, "a time-out");
            wl_drop_if_empty(r);
            break;
        }
        case 5: /* TIMEOUT_WOKEN: deadline passed, but already dequeued */
            r = wl_find(wl, 0);
            if (r && wl_index(r, t) >= 0)
                sim_fail("waitlist:damaged", "timed waiter %p of wait list %p found itself READY although no signal has dequeued it", who, obj);
            wl_verify(wl, r, "a time-out that found itself signalled");
            break;
    }
}
void wb_waitlist_stats(unsigned long *events, unsigned long *checks)
{
    *events = wb_wl_events;
    *checks = wb_wl_checks;
}
const void *wb_cond_waitlist(ABT_cond cond)
{
    return &ABTI_cond_get_ptr(cond)->waitlist;
}
int wb_waitlist_len(const void *wl)
{
    wb_wlrec *r = wl_find((const ABTI_waitlist *)wl, 0);
    return r ? r->n : 0;
}

/* the pool a pending migration request names (NULL if the unit has no migration data yet) */
const void *wb_thread_migration_target(ABT_thread th)
{
    ABTI_thread *p = ABTI_thread_get_ptr(th);
    ABTI_thread_mig_data *d = NULL;
    if (ABTI_thread_get_mig_data(gp_ABTI_global, ABTI_local_get_local(), p, &d) != ABT_SUCCESS || !d)
        return NULL;
    return __atomic_load_n(&d->p_migration_pool.val, __ATOMIC_RELAXED);
}
