/* white-box layer: everything that depends on Argobots' internal headers lives here.
 * If an upstream refactor makes this file uncompilable the build fails with exit 2
 * (infrastructure), never with a verdict. */
#include "abti.h"
#include "whitebox.h"
#include "sim_int.h"

static void *sim_local_ptr(void)
{
    /* Argobots identifies an external thread by the address of its thread-local
     * variable; all sim threads share one OS thread, so give each its own address. */
    return (void *)&G.T[G.cur].tls;
}

void wb_install(void)
{
    gp_ABTI_local_func.get_local_ptr_f = sim_local_ptr;
}

int wb_pool_num_blocked(ABT_pool pool)
{
    ABTI_pool *p = ABTI_pool_get_ptr(pool);
    return (int)__atomic_load_n(&p->num_blocked.val, __ATOMIC_RELAXED);
}
int wb_pool_num_scheds(ABT_pool pool)
{
    ABTI_pool *p = ABTI_pool_get_ptr(pool);
    return (int)__atomic_load_n(&p->num_scheds.val, __ATOMIC_RELAXED);
}
const void *wb_thread_state_addr(ABT_thread th)
{
    return &ABTI_thread_get_ptr(th)->state;
}
int wb_thread_state(ABT_thread th)
{
    return __atomic_load_n(&ABTI_thread_get_ptr(th)->state.val, __ATOMIC_RELAXED);
}
uint32_t wb_thread_request(ABT_thread th)
{
    return __atomic_load_n(&ABTI_thread_get_ptr(th)->request.val, __ATOMIC_RELAXED);
}
static ABTI_ythread *yt(ABT_thread th)
{
    return ABTI_thread_get_ythread_or_null(ABTI_thread_get_ptr(th));
}
void *wb_thread_stacktop(ABT_thread th)
{
    ABTI_ythread *y = yt(th);
    return y ? ABTD_ythread_context_get_stacktop(&y->ctx) : NULL;
}
size_t wb_thread_stacksize(ABT_thread th)
{
    ABTI_ythread *y = yt(th);
    return y ? ABTD_ythread_context_get_stacksize(&y->ctx) : 0;
}
const void *wb_thread_ctx(ABT_thread th)
{
    ABTI_ythread *y = yt(th);
    return y ? (const void *)&y->ctx : NULL;
}

int wb_thread_is_in_pool(ABT_thread th)
{
    return __atomic_load_n(&ABTI_thread_get_ptr(th)->is_in_pool.val, __ATOMIC_RELAXED);
}
