/* abtsim: implementations of the libc/pthread/futex/clock/allocator symbols that the
 * libabt objects are redirected to (objcopy --redefine-syms, see tools/redef.txt).
 * The harness itself keeps the real libc. */
#define _GNU_SOURCE
#include "sim_int.h"
#include <stdlib.h>
#include <string.h>
#include <errno.h>
#include <time.h>
#include <pthread.h>
#include <limits.h>
#include <unistd.h>
#include <linux/futex.h>
#include <sys/syscall.h>
#include <sys/mman.h>

extern int sim_spawn_pthread(void *(*fn)(void *), void *arg);
extern void sim_join_internal(int id);

#define SP(kind, name) sim_sched_point((kind), (name), 0)

/* Timer slack: a sleep or timed wait may legally end later than requested.  The base
 * slack is a per-run parameter; when the run has made no harness-level progress for a
 * long time the slack grows, so that idle phases made of very short periodic sleeps
 * (100 ns polling loops) cannot keep a long finite timeout (0.1 s pop_wait) from
 * expiring within the liveness bound. */
static uint64_t timer_slack(void)
{
    uint64_t since = G.steps - G.last_progress;
    uint64_t s = G.timer_slack;
    if (since > 300000 && s < 100000000ULL)
        s = 100000000ULL;
    else if (since > 100000 && s < 1000000ULL)
        s = 1000000ULL;
    return s;
}

/* ------------------------------------------------------------------ ledger */
#define LEDGER_N (1u << 14)
enum { LK_FREE = 0, LK_TOMB, LK_MALLOC, LK_MMAP, LK_PTHREAD };
static struct {
    const void *p;
    size_t sz;
    int kind;
    const void *site; /* return address of the allocating call (replay diagnostics only) */
    uint64_t step;
} ledger[LEDGER_N];
static const void *ledger_site;
static long ledger_live, ledger_bytes;
static unsigned lh(const void *p)
{
    return (unsigned)((((uintptr_t)p) >> 3) * 2654435761u) % LEDGER_N;
}
static void ledger_add(const void *p, size_t sz, int kind)
{
    unsigned h = lh(p);
    int tomb = -1;
    for (unsigned n = 0; n < LEDGER_N; n++, h = (h + 1) % LEDGER_N) {
        if (ledger[h].kind == LK_FREE)
            break;
        if (ledger[h].kind == LK_TOMB) {
            if (tomb < 0)
                tomb = (int)h;
            continue;
        }
        if (ledger[h].p == p)
            sim_fail("infra:ledger-dup", "address %p registered twice", p);
    }
    if (tomb >= 0)
        h = (unsigned)tomb;
    else if (ledger[h].kind != LK_FREE)
        sim_fail("infra:ledger-full", "more than %u live resources", LEDGER_N);
    if (ledger_live > (long)(LEDGER_N * 3 / 4))
        sim_fail("infra:ledger-full", "more than %u live resources", LEDGER_N * 3 / 4);
    ledger[h].p = p;
    ledger[h].sz = sz;
    ledger[h].kind = kind;
    ledger[h].site = ledger_site;
    ledger[h].step = G.steps;
    ledger_site = 0;
    ledger_live++;
    ledger_bytes += (long)sz;
}
static int ledger_find(const void *p)
{
    unsigned h = lh(p);
    for (unsigned n = 0; n < LEDGER_N; n++, h = (h + 1) % LEDGER_N) {
        if (ledger[h].kind == LK_FREE)
            return -1;
        if (ledger[h].kind != LK_TOMB && ledger[h].p == p)
            return (int)h;
    }
    return -1;
}
static void ledger_del(int h)
{
    ledger_live--;
    ledger_bytes -= (long)ledger[h].sz;
    ledger[h].kind = LK_TOMB;
    ledger[h].p = 0;
}
long sim_ledger_live(void)
{
    return ledger_live;
}
long sim_ledger_live_bytes(void)
{
    return ledger_bytes;
}
void sim_quarantine_check(void);
void sim_ledger_dump(int max);
void sim_ledger_check_empty(const char *when)
{
    sim_quarantine_check();
    if (ledger_live == 0)
        return;
    if (getenv("WL_DEBUG"))
        sim_ledger_dump(100);
    char buf[600];
    int n = 0, shown = 0;
    static const char *kn[] = { "", "", "malloc", "mmap", "pthread-obj" };
    for (unsigned h = 0; h < LEDGER_N && shown < 8; h++)
        if (ledger[h].kind > LK_TOMB) {
            n += snprintf(buf + n, sizeof buf - (size_t)n, " %s:%zu", kn[ledger[h].kind], ledger[h].sz);
            shown++;
        }
    sim_fail("M-ledger:leak", "%ld resources (%ld bytes) still held by the runtime %s:%s", ledger_live, ledger_bytes, when, buf);
}
int sim_ledger_contains(const void *lo, const void *hi)
{
    /* is [lo,hi) inside one live heap / mmap block obtained by the runtime? */
    for (unsigned h = 0; h < LEDGER_N; h++)
        if ((ledger[h].kind == LK_MALLOC || ledger[h].kind == LK_MMAP) && (const char *)ledger[h].p <= (const char *)lo &&
            (const char *)hi <= (const char *)ledger[h].p + ledger[h].sz)
            return 1;
    return 0;
}
void sim_ledger_dump(int max)
{
    int shown = 0;
    for (unsigned h = 0; h < LEDGER_N && shown < max; h++)
        if (ledger[h].kind > LK_TOMB) {
            fprintf(stderr, "ledger: %p %zu kind %d allocated at step %lu by %p\n", ledger[h].p, ledger[h].sz, ledger[h].kind, (unsigned long)ledger[h].step, ledger[h].site);
            shown++;
        }
}

/* allocation fault arming, per sim thread */
static int alloc_should_fail(int res)
{
    sthread *me = &G.T[G.cur];
    if (me->cnt_kinds & res)
        me->cnt++;
    if (me->arm_k > 0 && (me->arm_kinds & res)) {
        if (--me->arm_k == 0) {
            me->arm_fired = 1;
            int fk = res == SIM_RES_MALLOC ? SIM_F_MALLOC_FAIL
                     : res == SIM_RES_MMAP ? SIM_F_MMAP_FAIL
                     : res == SIM_RES_MPROTECT ? SIM_F_MPROTECT_FAIL
                     : res == SIM_RES_PTHREAD_CREATE ? SIM_F_PTHREAD_CREATE_FAIL
                                                     : SIM_F_PTHREAD_INIT_FAIL;
            G.fired[fk]++;
            return 1;
        }
    }
    return 0;
}
void sim_alloc_arm(int k, int kinds)
{
    sthread *me = &G.T[G.cur];
    me->arm_k = k;
    me->arm_kinds = kinds;
    me->arm_fired = 0;
}
int sim_alloc_fired(void)
{
    return G.T[G.cur].arm_fired;
}
void sim_alloc_count_reset(int kinds)
{
    G.T[G.cur].cnt = 0;
    G.T[G.cur].cnt_kinds = kinds;
}
int sim_alloc_count(void)
{
    return G.T[G.cur].cnt;
}

/* ---- quarantine: a freed block is not handed back to the allocator at once; it stays poisoned
 * until QUAR_N later frees have happened (and until the end of the run for the last ones), and
 * the poison is verified when it leaves: a store into memory the runtime has already freed
 * (for instance by a thread still finishing inside an object that another thread was allowed to
 * free) changes it and is reported, instead of silently landing in whatever reuses the block. */
#define QUAR_N 128
static struct {
    void *p;
    size_t np, sz;
} quar[QUAR_N];
static unsigned quar_pos;
static void quarantine_verify(unsigned i)
{
    const unsigned char *b = (const unsigned char *)quar[i].p;
    for (size_t k = 0; k < quar[i].np; k++)
        if (b[k] != 0xdd)
            sim_fail("M-ledger:write-after-free", "a block of %zu bytes that the runtime had freed was written to afterwards (offset %zu holds %#x)", quar[i].sz, k, b[k]);
}
static void quarantine_put(void *p, size_t np, size_t sz)
{
    if (sz > 65536) {
        free(p);
        return;
    }
    unsigned i = quar_pos++ % QUAR_N;
    if (quar[i].p) {
        quarantine_verify(i);
        free(quar[i].p);
    }
    quar[i].p = p;
    quar[i].np = np;
    quar[i].sz = sz;
}
void sim_quarantine_check(void)
{
    for (unsigned i = 0; i < QUAR_N; i++)
        if (quar[i].p)
            quarantine_verify(i);
}

void *abtv_malloc(size_t sz)
{
    ledger_site = __builtin_return_address(0);
    if (alloc_should_fail(SIM_RES_MALLOC)) {
        errno = ENOMEM;
        return NULL;
    }
    void *p = malloc(sz ? sz : 1);
    if (p) {
        ledger_add(p, sz, LK_MALLOC);
        /* malloc'ed memory is indeterminate: make reads of uninitialised fields visible */
        memset(p, 0xcb, sz <= 16384 ? sz : 256);
    }
    return p;
}
void *abtv_calloc(size_t n, size_t sz)
{
    ledger_site = __builtin_return_address(0);
    if (alloc_should_fail(SIM_RES_MALLOC)) {
        errno = ENOMEM;
        return NULL;
    }
    void *p = calloc(n ? n : 1, sz ? sz : 1);
    if (p)
        ledger_add(p, n * sz, LK_MALLOC);
    return p;
}
void abtv_free(void *p)
{
    if (!p)
        return;
    int h = ledger_find(p);
    if (h < 0 || ledger[h].kind != LK_MALLOC)
        sim_fail("M-ledger:bad-free", "free(%p): not a live block obtained by the runtime (double free or interior pointer)", p);
    /* poison so that use-after-free becomes visible */
    size_t np = ledger[h].sz <= 16384 ? ledger[h].sz : 256; /* large blocks: do not fault in untouched pages */
    size_t sz = ledger[h].sz;
    memset(p, 0xdd, np);
    ledger_del(h);
    quarantine_put(p, np, sz);
}
void *abtv_realloc(void *p, size_t sz)
{
    if (!p)
        return abtv_malloc(sz);
    if (alloc_should_fail(SIM_RES_MALLOC)) {
        errno = ENOMEM;
        return NULL;
    }
    int h = ledger_find(p);
    if (h < 0 || ledger[h].kind != LK_MALLOC)
        sim_fail("M-ledger:bad-free", "realloc(%p): not a live block", p);
    void *q = realloc(p, sz ? sz : 1);
    if (q) {
        ledger_del(h);
        ledger_add(q, sz, LK_MALLOC);
    }
    return q;
}
int abtv_posix_memalign(void **pp, size_t align, size_t sz)
{
    ledger_site = __builtin_return_address(0);
    if (alloc_should_fail(SIM_RES_MALLOC))
        return ENOMEM;
    int r = posix_memalign(pp, align, sz ? sz : 1);
    if (r == 0) {
        ledger_add(*pp, sz, LK_MALLOC);
        memset(*pp, 0xcb, sz <= 16384 ? sz : 256);
    }
    return r;
}
void *abtv_mmap(void *addr, size_t len, int prot, int flags, int fd, off_t off)
{
    if (alloc_should_fail(SIM_RES_MMAP)) {
        errno = ENOMEM;
        return MAP_FAILED;
    }
    void *p = mmap(addr, len, prot, flags, fd, off);
    if (p != MAP_FAILED)
        ledger_add(p, len, LK_MMAP);
    return p;
}
int abtv_munmap(void *addr, size_t len)
{
    int h = ledger_find(addr);
    if (h < 0 || ledger[h].kind != LK_MMAP)
        sim_fail("M-ledger:bad-free", "munmap(%p,%zu): not a live mapping obtained by the runtime", addr, len);
    if (ledger[h].sz != len)
        sim_fail("M-ledger:bad-free", "munmap(%p,%zu): mapping has length %zu", addr, len, ledger[h].sz);
    ledger_del(h);
    return munmap(addr, len);
}
int abtv_mprotect(void *addr, size_t len, int prot)
{
    if (alloc_should_fail(SIM_RES_MPROTECT)) {
        errno = ENOMEM;
        return -1;
    }
    return mprotect(addr, len, prot);
}

/* ------------------------------------------------------------------ pthread */
int abtv_pthread_create(pthread_t *pt, const pthread_attr_t *a, void *(*fn)(void *), void *arg)
{
    (void)a;
    if (alloc_should_fail(SIM_RES_PTHREAD_CREATE))
        return EAGAIN;
    int id = sim_spawn_pthread(fn, arg);
    *pt = (pthread_t)(uintptr_t)(id + 1);
    SP('S', "pthread_create");
    return 0;
}
int abtv_pthread_join(pthread_t pt, void **r)
{
    int id = (int)(uintptr_t)pt - 1;
    SP('S', "pthread_join");
    sim_join_internal(id);
    if (r)
        *r = G.T[id].ret;
    return 0;
}
pthread_t abtv_pthread_self(void)
{
    return (pthread_t)(uintptr_t)(G.cur + 1);
}

/* pthread objects live inside malloc'ed blocks: key them by address|1 */
#define PKEY(o) ((const void *)((uintptr_t)(o) | 1))
static void pobj_init(void *o, size_t sz)
{
    memset(o, 0, sz);
    ledger_add(PKEY(o), 0, LK_PTHREAD);
}
static void pobj_destroy(void *o)
{
    int h = ledger_find(PKEY(o));
    if (h >= 0 && ledger[h].kind == LK_PTHREAD)
        ledger_del(h);
    /* statically initialised objects were never registered */
}
static void wake_all_on(int kind, const void *addr)
{
    for (int i = 0; i < G.nT; i++)
        if (G.T[i].state == ST_BLOCKED && G.T[i].wait_kind == kind && G.T[i].wait_addr == addr)
            sim_wake(i, WR_WAKE);
}
static int wake_one_on(int kind, const void *addr)
{
    int w[SIM_MAXT], n = 0;
    for (int i = 0; i < G.nT; i++)
        if (G.T[i].state == ST_BLOCKED && G.T[i].wait_kind == kind && G.T[i].wait_addr == addr)
            w[n++] = i;
    if (!n)
        return 0;
    /* any waiter may be chosen (POSIX / futex(2)); the choice is part of the schedule */
    /* a pure function of (seed, step) so that trace replay makes the same choice */
    uint64_t x = (G.steps + 1) * 0x9e3779b97f4a7c15ULL ^ G.seed * 0xd1b54a32d192ed03ULL;
    x ^= x >> 29;
    int pick = (int)((x * 0xbf58476d1ce4e5b9ULL >> 33) % (uint64_t)n);
    sim_wake(w[pick], WR_WAKE);
    return 1;
}

int abtv_pthread_mutex_init(pthread_mutex_t *m, const pthread_mutexattr_t *a)
{
    (void)a;
    if (alloc_should_fail(SIM_RES_PTHREAD_INIT))
        return ENOMEM;
    pobj_init(m, sizeof *m);
    return 0;
}
int abtv_pthread_mutex_destroy(pthread_mutex_t *m)
{
    int *o = (int *)m;
    if (*o)
        sim_fail("stub:mutex-destroy-locked", "pthread_mutex_destroy of a locked mutex %p (owner t%d)", (void *)m, *o - 1);
    pobj_destroy(m);
    return 0;
}
int abtv_pthread_mutex_lock(pthread_mutex_t *m)
{
    int *o = (int *)m;
    SP('S', "pthread_mutex_lock");
    while (*o)
        sim_block(WK_MUTEX, m, 0);
    *o = G.cur + 1;
    return 0;
}
int abtv_pthread_mutex_trylock(pthread_mutex_t *m)
{
    int *o = (int *)m;
    SP('S', "pthread_mutex_trylock");
    if (*o)
        return EBUSY;
    *o = G.cur + 1;
    return 0;
}
static void mu_unlock(pthread_mutex_t *m)
{
    int *o = (int *)m;
    if (*o != G.cur + 1)
        sim_fail("stub:mutex-unlock-not-owner", "pthread_mutex_unlock(%p) by t%d but owner is t%d", (void *)m, G.cur, *o - 1);
    *o = 0;
    wake_all_on(WK_MUTEX, m);
}
int abtv_pthread_mutex_unlock(pthread_mutex_t *m)
{
    mu_unlock(m);
    SP('S', "pthread_mutex_unlock");
    return 0;
}
/* The monotonic clock and the real-time clock are different time lines, as on a real machine
 * (seconds since boot against seconds since the epoch): here the monotonic clock starts
 * MONO_BEHIND_NS behind.  A condition variable measures the deadline of a timed wait on the
 * clock of its attribute (pthread_condattr_setclock); its memory is ours: int[1] holds it. */
#define MONO_BEHIND_NS 999000000000000ULL
static int is_mono(clockid_t c)
{
    return c == CLOCK_MONOTONIC || c == CLOCK_MONOTONIC_RAW || c == CLOCK_MONOTONIC_COARSE || c == CLOCK_BOOTTIME;
}
int abtv_pthread_cond_init(pthread_cond_t *c, const pthread_condattr_t *a)
{
    if (alloc_should_fail(SIM_RES_PTHREAD_INIT))
        return ENOMEM;
    pobj_init(c, sizeof *c);
    clockid_t clk = CLOCK_REALTIME;
    if (a && pthread_condattr_getclock(a, &clk) == 0 && is_mono(clk))
        ((int *)c)[1] = 1;
    return 0;
}
int abtv_pthread_cond_destroy(pthread_cond_t *c)
{
    for (int i = 0; i < G.nT; i++)
        if (G.T[i].state == ST_BLOCKED && G.T[i].wait_kind == WK_COND && G.T[i].wait_addr == c)
            sim_fail("stub:cond-destroy-waiters", "pthread_cond_destroy(%p) while t%d waits on it", (void *)c, i);
    pobj_destroy(c);
    return 0;
}
static void relock(pthread_mutex_t *m)
{
    int *o = (int *)m;
    while (*o)
        sim_block(WK_MUTEX, m, 0);
    *o = G.cur + 1;
}
int abtv_pthread_cond_wait(pthread_cond_t *c, pthread_mutex_t *m)
{
    /* release and block atomically */
    mu_unlock(m);
    sim_block(WK_COND, c, 0);
    relock(m);
    return 0;
}
int abtv_pthread_cond_timedwait(pthread_cond_t *c, pthread_mutex_t *m, const struct timespec *ts)
{
    uint64_t dl = (uint64_t)ts->tv_sec * 1000000000ULL + (uint64_t)ts->tv_nsec;
    if (((int *)c)[1]) /* the deadline is a reading of the monotonic clock */
        dl += MONO_BEHIND_NS;
    mu_unlock(m);
    int r;
    if (dl <= G.now) {
        SP('S', "pthread_cond_timedwait");
        r = WR_TIMEOUT;
    } else
        r = sim_block(WK_COND, c, dl + timer_slack());
    relock(m);
    return r == WR_TIMEOUT ? ETIMEDOUT : 0;
}
int abtv_pthread_cond_signal(pthread_cond_t *c)
{
    wake_one_on(WK_COND, c);
    SP('S', "pthread_cond_signal");
    return 0;
}
int abtv_pthread_cond_broadcast(pthread_cond_t *c)
{
    wake_all_on(WK_COND, c);
    SP('S', "pthread_cond_broadcast");
    return 0;
}

/* barriers: side table */
#define MAXBAR 64
static struct {
    pthread_barrier_t *b;
    unsigned count, arrived;
    uint64_t gen;
} bars[MAXBAR];
static int bar_find(pthread_barrier_t *b)
{
    for (int i = 0; i < MAXBAR; i++)
        if (bars[i].b == b)
            return i;
    return -1;
}
int abtv_pthread_barrier_init(pthread_barrier_t *b, const pthread_barrierattr_t *a, unsigned count)
{
    (void)a;
    if (alloc_should_fail(SIM_RES_PTHREAD_INIT))
        return ENOMEM;
    if (count == 0)
        return EINVAL;
    int i = bar_find(NULL);
    if (i < 0)
        sim_fail("infra:too-many-barriers", "barrier table full");
    bars[i].b = b;
    bars[i].count = count;
    bars[i].arrived = 0;
    bars[i].gen = 0;
    ledger_add(PKEY(b), 0, LK_PTHREAD);
    return 0;
}
int abtv_pthread_barrier_destroy(pthread_barrier_t *b)
{
    int i = bar_find(b);
    if (i < 0)
        sim_fail("stub:barrier-destroy-unknown", "pthread_barrier_destroy(%p) of an uninitialised barrier", (void *)b);
    if (bars[i].arrived)
        sim_fail("stub:barrier-destroy-waiters", "pthread_barrier_destroy(%p) with %u waiters", (void *)b, bars[i].arrived);
    bars[i].b = NULL;
    pobj_destroy(b);
    return 0;
}
int abtv_pthread_barrier_wait(pthread_barrier_t *b)
{
    int i = bar_find(b);
    if (i < 0)
        sim_fail("stub:barrier-wait-unknown", "pthread_barrier_wait(%p) on an uninitialised barrier", (void *)b);
    SP('S', "pthread_barrier_wait");
    if (++bars[i].arrived == bars[i].count) {
        bars[i].arrived = 0;
        bars[i].gen++;
        wake_all_on(WK_BARRIER, b);
        SP('S', "pthread_barrier_wait");
        return PTHREAD_BARRIER_SERIAL_THREAD;
    }
    uint64_t g = bars[i].gen;
    while (bars[i].b == b && bars[i].gen == g)
        sim_block(WK_BARRIER, b, 0);
    return 0;
}

/* ------------------------------------------------------------------ futex */
long abtv_syscall(long no, ...)
{
    va_list ap;
    va_start(ap, no);
    if (no != SYS_futex)
        sim_fail("infra:syscall", "unexpected syscall %ld", no);
    int *addr = va_arg(ap, int *);
    int op = va_arg(ap, int);
    int val = va_arg(ap, int);
    struct timespec *ts = va_arg(ap, struct timespec *);
    va_end(ap);
    /* like the kernel, keep process-private and shared futexes apart: a FUTEX_WAKE_PRIVATE does
     * not find a thread that sleeps in a plain FUTEX_WAIT on the same address, and vice versa
     * (futex words are 4-byte aligned, so address + 1 is a free key for the shared kind) */
    const void *key = (op & FUTEX_PRIVATE_FLAG) ? (const void *)addr : (const void *)((const char *)addr + 1);
    op &= ~FUTEX_PRIVATE_FLAG;
    SP('S', "futex");
    if (op == FUTEX_WAIT) {
        if (*(volatile int *)addr != val) {
            errno = EAGAIN;
            return -1;
        }
        uint64_t dl = 0;
        if (ts) {
            dl = G.now + (uint64_t)ts->tv_sec * 1000000000ULL + (uint64_t)ts->tv_nsec;
            if (dl <= G.now)
                dl = G.now + 1;
        }
        int r = sim_block(WK_FUTEX, key, dl ? dl + timer_slack() : 0);
        if (r == WR_TIMEOUT) {
            errno = ETIMEDOUT;
            return -1;
        }
        if (r == WR_SPURIOUS && (G.steps & 1)) {
            errno = EINTR;
            return -1;
        }
        return 0;
    }
    if (op == FUTEX_WAKE) {
        int n = 0;
        if (val >= SIM_MAXT) { /* (more than there can be: everybody; a smaller count is honoured exactly) */
            for (int i = 0; i < G.nT; i++)
                if (G.T[i].state == ST_BLOCKED && G.T[i].wait_kind == WK_FUTEX && G.T[i].wait_addr == key) {
                    sim_wake(i, WR_WAKE);
                    n++;
                }
        } else {
            while (n < val && wake_one_on(WK_FUTEX, key))
                n++;
        }
        return n;
    }
    sim_fail("infra:futex-op", "unsupported futex op %d", op);
}

/* ------------------------------------------------------------------ time */
int abtv_nanosleep(const struct timespec *ts, struct timespec *rem)
{
    uint64_t d = (uint64_t)ts->tv_sec * 1000000000ULL + (uint64_t)ts->tv_nsec;
    uint64_t dl = G.now + (d ? d : 1) + timer_slack();
    int r = sim_block(WK_SLEEP, 0, dl);
    if (r == WR_SPURIOUS) {
        if (rem) {
            uint64_t left = dl > G.now ? dl - G.now : 0;
            rem->tv_sec = (time_t)(left / 1000000000ULL);
            rem->tv_nsec = (long)(left % 1000000000ULL);
        }
        errno = EINTR;
        return -1;
    }
    return 0;
}
int abtv_clock_gettime(clockid_t c, struct timespec *ts)
{
    SP('T', "clock_gettime");
    uint64_t t = is_mono(c) ? G.now - MONO_BEHIND_NS : G.now;
    ts->tv_sec = (time_t)(t / 1000000000ULL);
    ts->tv_nsec = (long)(t % 1000000000ULL);
    return 0;
}
time_t abtv_time(time_t *t)
{
    time_t v = (time_t)(G.now / 1000000000ULL);
    if (t)
        *t = v;
    return v;
}
long abtv_sysconf(int name)
{
    if (name == _SC_NPROCESSORS_ONLN || name == _SC_NPROCESSORS_CONF)
        return 8;
    return sysconf(name);
}

/* ------------------------------------------------------------------ assert */
void abtv_assert_fail(const char *expr, const char *file, unsigned line, const char *func)
{
    char cls[160];
    const char *s = strrchr(file, '/');
    snprintf(cls, sizeof cls, "assert:%s:%u", s ? s + 1 : file, line);
    sim_fail(cls, "assertion `%s' failed in %s", expr, func);
}

/* ---- SanitizerCoverage callbacks (variant VP only; nothing calls them otherwise) ---- */
void sim_plain_access(void);
void __sanitizer_cov_trace_pc_guard_init(uint32_t *start, uint32_t *stop)
{
    (void)start;
    (void)stop;
}
void __sanitizer_cov_trace_pc_guard(uint32_t *guard)
{
    (void)guard;
}
#define COV_CB(name)                                                           \
    void name(void *addr)                                                      \
    {                                                                          \
        (void)addr;                                                            \
        sim_plain_access();                                                    \
    }
COV_CB(__sanitizer_cov_load1)
COV_CB(__sanitizer_cov_load2)
COV_CB(__sanitizer_cov_load4)
COV_CB(__sanitizer_cov_load8)
COV_CB(__sanitizer_cov_load16)
COV_CB(__sanitizer_cov_store1)
COV_CB(__sanitizer_cov_store2)
COV_CB(__sanitizer_cov_store4)
COV_CB(__sanitizer_cov_store8)
COV_CB(__sanitizer_cov_store16)
