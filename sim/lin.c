/* H-lin: Wing-Gong style linearizability checker for double-ended queue histories.
 * Operations carry the simulator's global step number at invocation and return. */
#include "lin.h"
#include <string.h>
#include <stdio.h>

#define MEMO_N (1u << 18)
static struct {
    uint64_t mask, h;
    unsigned used; /* generation stamp: the table is never cleared (a run is a fresh fork) */
} memo[MEMO_N];
static unsigned memo_gen;
static long nodes, node_cap;

typedef struct dq {
    int n;
    int v[LIN_MAX_TOK * 2];
} dq;

static uint64_t dq_hash(const dq *q)
{
    uint64_t h = 1469598103934665603ULL;
    for (int i = 0; i < q->n; i++)
        h = (h ^ (uint64_t)(q->v[i] + 1)) * 1099511628211ULL;
    return h ^ ((uint64_t)q->n << 56);
}

static int memo_seen(uint64_t mask, uint64_t h)
{
    uint64_t k = (mask * 0x9e3779b97f4a7c15ULL) ^ h;
    unsigned i = (unsigned)(k >> 20) % MEMO_N;
    for (unsigned n = 0; n < 64; n++, i = (i + 1) % MEMO_N) {
        if (memo[i].used != memo_gen) {
            memo[i].used = memo_gen;
            memo[i].mask = mask;
            memo[i].h = h;
            return 0;
        }
        if (memo[i].mask == mask && memo[i].h == h)
            return 1;
    }
    return 0; /* table crowded: just explore again */
}

/* apply op to q; returns 0 if the op is impossible in this state */
static int apply(const lin_op *o, dq *q)
{
    switch (o->kind) {
        case LIN_PUSH:
            for (int i = 0; i < o->ntok; i++) {
                if (q->n >= LIN_MAX_TOK * 2)
                    return 0;
                if (o->end == LIN_TAIL)
                    q->v[q->n++] = o->tok[i];
                else {
                    memmove(&q->v[1], &q->v[0], sizeof(int) * (size_t)q->n);
                    q->v[0] = o->tok[i];
                    q->n++;
                }
            }
            return 1;
        case LIN_POP:
            /* returned ntok units out of at most o->max */
            if (o->ntok > q->n)
                return 0;
            for (int i = 0; i < o->ntok; i++) {
                int idx = o->end == LIN_HEAD ? i : q->n - 1 - i;
                if (q->v[idx] != o->tok[i])
                    return 0;
            }
            if (o->ntok < o->max && q->n != o->ntok)
                return 0; /* came back short although more units were there */
            if (o->end == LIN_HEAD)
                memmove(&q->v[0], &q->v[o->ntok], sizeof(int) * (size_t)(q->n - o->ntok));
            q->n -= o->ntok;
            return 1;
        case LIN_REMOVE:
            /* max = 1: the call succeeded (the unit must be there); max = 0: it was refused
             * because the unit was not in the pool (it must not be there) */
            for (int i = 0; i < q->n; i++)
                if (q->v[i] == o->tok[0]) {
                    if (!o->max)
                        return 0;
                    memmove(&q->v[i], &q->v[i + 1], sizeof(int) * (size_t)(q->n - i - 1));
                    q->n--;
                    return 1;
                }
            return o->max ? 0 : 1;
        case LIN_SIZE:
            return q->n == o->max;
    }
    return 0;
}

static int dfs(const lin_op *ops, int n, uint64_t done, const dq *q, int *final_size)
{
    if (done == (n == 64 ? ~0ULL : ((1ULL << n) - 1))) {
        if (final_size)
            *final_size = q->n;
        return 1;
    }
    if (++nodes > node_cap)
        return -1;
    if (memo_seen(done, dq_hash(q)))
        return 0;
    /* earliest return among pending operations */
    uint64_t min_ret = ~0ULL;
    for (int i = 0; i < n; i++)
        if (!(done & (1ULL << i)) && ops[i].ret < min_ret)
            min_ret = ops[i].ret;
    for (int i = 0; i < n; i++) {
        if (done & (1ULL << i))
            continue;
        if (ops[i].inv > min_ret)
            continue; /* some pending op returned before this one was invoked */
        dq q2 = *q;
        if (!apply(&ops[i], &q2))
            continue;
        int r = dfs(ops, n, done | (1ULL << i), &q2, final_size);
        if (r != 0)
            return r;
    }
    return 0;
}

int lin_check(const lin_op *ops, int n, long cap, int *final_size)
{
    if (n > LIN_MAX_OPS)
        return -1;
    memo_gen++;
    nodes = 0;
    node_cap = cap;
    dq q;
    q.n = 0;
    return dfs(ops, n, 0, &q, final_size);
}

int lin_format(const lin_op *ops, int n, char *buf, int sz)
{
    static const char *kn[] = { "push", "pop", "remove", "size" };
    int k = 0;
    for (int i = 0; i < n && k < sz - 60; i++) {
        k += snprintf(buf + k, (size_t)(sz - k), "%s[%lu,%lu]c%d:%s%s(", i ? " " : "", (unsigned long)ops[i].inv, (unsigned long)ops[i].ret, ops[i].client, kn[ops[i].kind],
                      ops[i].kind == LIN_SIZE ? "" : ops[i].end == LIN_HEAD ? "@head" : "@tail");
        if (ops[i].kind == LIN_POP || ops[i].kind == LIN_SIZE)
            k += snprintf(buf + k, (size_t)(sz - k), "max%d:", ops[i].max);
        for (int j = 0; j < ops[i].ntok && k < sz - 12; j++)
            k += snprintf(buf + k, (size_t)(sz - k), "%s%d", j ? "," : "", ops[i].tok[j]);
        k += snprintf(buf + k, (size_t)(sz - k), ")");
    }
    return k;
}
