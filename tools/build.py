#!/usr/bin/env python3
"""Hash-keyed hooked build of /repo's *current working tree* plus the simulator harness.

  build.py [--variant V0|V1|V2|V3|VS|VP] [--repo /repo] [--quiet]  -> prints path of abtsim

The source list is read from src/Makefile.am and the */Makefile.mk fragments.  libabt is
compiled with the project's own flags plus -DABT_VERIF_SIM, every object then gets the
libc/pthread/futex/clock/allocator symbols redirected to the simulator (objcopy
--redefine-syms tools/redef.txt), and the harness (sim/*.c, workloads/*.c) is linked
against it with -no-pie.  Output: /verif/build/<variant>-<key>/abtsim (cache)."""
import argparse, hashlib, os, re, shutil, subprocess, sys, time
from concurrent.futures import ThreadPoolExecutor

VERIF = os.path.dirname(os.path.dirname(os.path.abspath(__file__)))
TOOLVER = "3"

VARIANTS = {
    # name: (defines to remove from abt_config.h, defines to add, extra cflags for lib+harness)
    "V0": ([], [], []),
    "V1": (["HAVE_PTHREAD_BARRIER_INIT"], [], []),
    "V2": (["ABT_CONFIG_USE_LINUX_FUTEX"], [], []),
    "V3": (["ABT_CONFIG_DISABLE_LAZY_STACK_ALLOC"], [], []),
    "VS": (["ABT_CONFIG_DISABLE_UB_ASSERT"], [], ["-fsanitize=address,undefined", "-fno-omit-frame-pointer", "-fno-sanitize-recover=undefined"]),
    # VP: libabt compiled by clang with a callback at every plain load/store; the simulator
    # turns some of them into scheduling points (sim_plain_access)
    "VP": ([], [], []),
    # VG: libabt compiled with gcov counters (tools/coverage.py: which library lines the
    # workloads reach); never part of a check
    "VG": ([], [], []),
    "VG2": (["ABT_CONFIG_USE_LINUX_FUTEX"], [], []),
    "VG3": (["ABT_CONFIG_DISABLE_LAZY_STACK_ALLOC"], [], []),
}
LIB_ONLY = {
    "VP": ("clang", ["-fsanitize-coverage=trace-pc-guard,trace-loads,trace-stores", "-Wno-unknown-warning-option"]),
    "VG": ("gcc", ["-O1", "--coverage", "-fprofile-update=single"]),
    "VG2": ("gcc", ["-O1", "--coverage", "-fprofile-update=single"]),
    "VG3": ("gcc", ["-O1", "--coverage", "-fprofile-update=single"]),
}
HARNESS_ONLY = {"VG": ["-DSIM_GCOV"], "VG2": ["-DSIM_GCOV"], "VG3": ["-DSIM_GCOV"]}
LINK_ONLY = {"VG": ["--coverage"], "VG2": ["--coverage"], "VG3": ["--coverage"]}


def die(msg):
    sys.stderr.write("build.py: " + msg + "\n")
    sys.exit(2)


def read_sources(repo):
    src = os.path.join(repo, "src")
    texts = []
    am = open(os.path.join(src, "Makefile.am")).read()
    texts.append(("", am))
    for m in re.finditer(r'include \$\(top_srcdir\)/src/(\S+)/Makefile\.mk', am):
        p = os.path.join(src, m.group(1), "Makefile.mk")
        if os.path.exists(p):
            texts.append((m.group(1), open(p).read()))
    files = []
    cfg = open(os.path.join(src, "include", "abt_config.h")).read()
    use_fctx = re.search(r'^#define ABT_CONFIG_USE_FCONTEXT', cfg, re.M) is not None
    fctx = "x86_64_sysv_elf_gas"
    mk = os.path.join(src, "Makefile")
    if os.path.exists(mk):
        m = re.search(r'fcontext_(\w+)\.S', open(mk).read())
        if m:
            fctx = m.group(1)
    for _, t in texts:
        t = t.replace("\\\n", " ")
        active = True
        for line in t.split("\n"):
            ls = line.strip()
            if ls.startswith("if "):
                active = use_fctx if "FCONTEXT" in ls else False
                continue
            if ls == "endif":
                active = True
                continue
            m = re.match(r'abt_sources\s*\+?=\s*(.*)', ls)
            if m and active:
                for f in m.group(1).split():
                    f = f.replace("@fctx_arch_bin@", fctx)
                    if f.endswith(".c") or f.endswith(".S"):
                        files.append(f)
    if not files:
        die("no sources found in src/Makefile.am")
    return files


def tree_hash(repo, variant, flags):
    h = hashlib.sha256()
    h.update(("%s|%s|%s" % (TOOLVER, variant, " ".join(flags))).encode())
    roots = [os.path.join(repo, "src"), os.path.join(VERIF, "sim"), os.path.join(VERIF, "workloads")]
    for root in roots:
        for dp, dn, fn in sorted(os.walk(root)):
            dn[:] = sorted(d for d in dn if d not in (".libs", ".deps"))
            for f in sorted(fn):
                if not f.endswith((".c", ".h", ".S", ".mk", ".am", ".in")):
                    continue
                p = os.path.join(dp, f)
                h.update(p.encode())
                with open(p, "rb") as fh:
                    h.update(fh.read())
    h.update(open(os.path.join(VERIF, "tools", "redef.txt"), "rb").read())
    return h.hexdigest()[:20]


def run(cmd, log):
    r = subprocess.run(cmd, stdout=subprocess.PIPE, stderr=subprocess.STDOUT)
    if r.returncode != 0:
        log.append("$ " + " ".join(cmd) + "\n" + r.stdout.decode(errors="replace"))
        return False
    return True


def main():
    ap = argparse.ArgumentParser()
    ap.add_argument("--variant", default="V0")
    ap.add_argument("--repo", default="/repo")
    ap.add_argument("--quiet", action="store_true")
    a = ap.parse_args()
    if a.variant not in VARIANTS:
        die("unknown variant " + a.variant)
    rm_defs, add_defs, extra = VARIANTS[a.variant]
    repo = a.repo
    inc = os.path.join(repo, "src", "include")
    if not (os.path.exists(os.path.join(inc, "abt_config.h")) and os.path.exists(os.path.join(inc, "abt.h"))):
        die("src/include/abt_config.h / abt.h missing: run ./configure in the repository first")
    libcc, libonly = LIB_ONLY.get(a.variant, ("gcc", []))
    libflags = ["-O2", "-g", "-Wno-error", "-DHAVE_CONFIG_H", "-DABT_VERIF_SIM", "-fvisibility=hidden"] + extra + libonly
    key = tree_hash(repo, a.variant, libflags)
    bdir = os.path.join(VERIF, "build", "%s-%s" % (a.variant, key))
    exe = os.path.join(bdir, "abtsim")
    if os.path.exists(exe):
        os.utime(bdir, None)
        print(exe)
        return
    t0 = time.time()
    tmp = bdir + ".tmp%d" % os.getpid()
    if a.variant.startswith("VG"):
        tmp = bdir  # the objects record the absolute path of their .gcda files
    shutil.rmtree(tmp, ignore_errors=True)
    os.makedirs(tmp)
    incdir = inc
    if rm_defs or add_defs:
        incdir = os.path.join(tmp, "include")
        shutil.copytree(inc, incdir)
        cfgp = os.path.join(incdir, "abt_config.h")
        cfg = open(cfgp).read()
        for d in rm_defs:
            cfg, n = re.subn(r'^#define %s\b.*$' % d, "/* #undef %s (variant %s) */" % (d, a.variant), cfg, flags=re.M)
            if n == 0:
                sys.stderr.write("build.py: note: %s not defined in abt_config.h\n" % d)
        for d in add_defs:
            cfg += "\n#define %s 1\n" % d
        open(cfgp, "w").write(cfg)
    files = read_sources(repo)
    log = []
    objs = []
    jobs = []
    redef = os.path.join(VERIF, "tools", "redef.txt")
    for f in files:
        o = os.path.join(tmp, "abt_" + f.replace("/", "_").rsplit(".", 1)[0] + ".o")
        objs.append(o)
        cmd = [libcc] + libflags + ["-I" + incdir, "-I" + os.path.join(repo, "src"), "-c", os.path.join(repo, "src", f), "-o", o]
        jobs.append((cmd, o, True))
    hflags = ["-O1", "-g", "-Wall", "-Wno-unused-function", "-DHAVE_CONFIG_H", "-DABT_VERIF_SIM", "-I" + incdir, "-I" + os.path.join(VERIF, "sim"),
              "-I" + os.path.join(VERIF, "workloads")] + extra + HARNESS_ONLY.get(a.variant, [])
    hobjs = []
    for d in ("sim", "workloads"):
        dd = os.path.join(VERIF, d)
        for f in sorted(os.listdir(dd)):
            if f.endswith((".c", ".S")):
                o = os.path.join(tmp, "h_" + d + "_" + f.rsplit(".", 1)[0] + ".o")
                hobjs.append(o)
                jobs.append((["gcc"] + hflags + ["-c", os.path.join(dd, f), "-o", o], o, False))

    def work(j):
        cmd, o, is_lib = j
        if not run(cmd, log):
            return False
        if is_lib:
            return run(["objcopy", "--redefine-syms=" + redef, o], log)
        return True

    with ThreadPoolExecutor(max_workers=16) as ex:
        res = list(ex.map(work, jobs))
    if not all(res):
        sys.stderr.write("\n".join(log)[-6000:] + "\n")
        shutil.rmtree(tmp, ignore_errors=True)
        die("compilation failed (infrastructure error, not a verdict)")
    lib = os.path.join(tmp, "libabt_sim.a")
    if not run(["ar", "rcs", lib] + objs, log):
        die("ar failed\n" + "\n".join(log))
    link = ["gcc", "-no-pie", "-o", os.path.join(tmp, "abtsim")] + hobjs + [lib, "-lpthread", "-lm", "-lrt"] + extra + LINK_ONLY.get(a.variant, [])
    if not run(link, log):
        sys.stderr.write("\n".join(log)[-6000:] + "\n")
        shutil.rmtree(tmp, ignore_errors=True)
        die("link failed (infrastructure error, not a verdict)")
    for o in objs + hobjs:
        os.unlink(o)
    try:
        if tmp != bdir:
            os.rename(tmp, bdir)
    except OSError:
        shutil.rmtree(tmp, ignore_errors=True)  # a concurrent build won the race
    # keep the cache small
    root = os.path.join(VERIF, "build")
    ents = [os.path.join(root, d) for d in os.listdir(root) if re.match(r'V\w+-[0-9a-f]{20}$', d)]
    ents.sort(key=lambda p: os.path.getmtime(p), reverse=True)
    for p in ents[10:]:
        # never a directory that was built or used in the last half hour: another check (another
        # variant, or a scratch copy of the repository) may be running from it right now
        if time.time() - os.path.getmtime(p) > 1800:
            shutil.rmtree(p, ignore_errors=True)
    if not a.quiet:
        sys.stderr.write("build.py: built %s in %.1fs\n" % (bdir, time.time() - t0))
    print(exe)


if __name__ == "__main__":
    main()
