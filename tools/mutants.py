#!/usr/bin/env python3
"""Sensitivity harness: apply a small source mutant to a scratch copy of /repo/src (under
/tmp, removed afterwards) and run the quick check of the property it should break.

  tools/mutants.py list
  tools/mutants.py run <name>|all [--runs N] [--budget S]

Results are appended to evidence/sensitivity.json."""
import json, os, shutil, subprocess, sys, time, argparse

VERIF = os.path.dirname(os.path.dirname(os.path.abspath(__file__)))

# name: (property, file relative to src/, old text, new text, description)
M = {}
MODE = {}


EXTRA = {}
CHECK_ARGS = {}  # extra bin/check arguments of a mutant (e.g. the tier / variant it needs)


def mut(name, prop, path, old, new, desc, first=False, all=False, extra=None):
    M[name] = (prop, path, old, new, desc)
    if extra:
        EXTRA[name] = extra  # list of (path, old, new)
    MODE[name] = "first" if first else "all" if all else "one"


mut("c04_no_retry_under_waiter_lock", "C04", "include/abti_mutex.h",
    """        if (!ABTD_spinlock_try_acquire(&p_mutex->lock)) {
            /* Lock has been taken. */
            ABTD_spinlock_release(&p_mutex->waiter_lock);
            break;
        }
""", "", "mutex lock: drop the re-try under waiter_lock (lost wake-up)")
mut("c04_unlock_before_waiter_lock", "C04", "include/abti_mutex.h",
    """    ABTD_spinlock_acquire(&p_mutex->waiter_lock);
    ABTD_spinlock_release(&p_mutex->lock);
    /* Operations of waitlist must be done while taking waiter_lock. */
    ABTI_waitlist_broadcast(p_local, &p_mutex->waitlist);
    ABTD_spinlock_release(&p_mutex->waiter_lock);""",
    """    ABTD_spinlock_acquire(&p_mutex->waiter_lock);
    ABTI_waitlist_broadcast(p_local, &p_mutex->waitlist);
    ABTD_spinlock_release(&p_mutex->waiter_lock);
    ABTD_spinlock_release(&p_mutex->lock);""", "mutex unlock: broadcast the wait list before releasing the lock word")
mut("c04_trylock_recursive_no_owner", "C04", "include/abti_mutex.h",
    """            if (abt_errno == ABT_SUCCESS) {
                ABTI_ASSERT(p_mutex->nesting_cnt == 0);
                p_mutex->owner_id = self_id;
            }
            return abt_errno;""",
    """            return abt_errno;""", "recursive trylock does not record the owner")
mut("c05_unlock_mutex_before_cond_lock", "C05", "include/abti_cond.h",
    """    ABTD_spinlock_acquire(&p_cond->lock);

    if (p_cond->p_waiter_mutex == NULL) {
        p_cond->p_waiter_mutex = p_mutex;
    } else {
        if (p_cond->p_waiter_mutex != p_mutex) {
            ABTD_spinlock_release(&p_cond->lock);
            return ABT_ERR_INV_MUTEX;
        }
    }

    ABTI_mutex_unlock(*pp_local, p_mutex);""",
    """    ABTI_mutex_unlock(*pp_local, p_mutex);
    ABTD_spinlock_acquire(&p_cond->lock);

    if (p_cond->p_waiter_mutex == NULL) {
        p_cond->p_waiter_mutex = p_mutex;
    } else {
        if (p_cond->p_waiter_mutex != p_mutex) {
            ABTD_spinlock_release(&p_cond->lock);
            return ABT_ERR_INV_MUTEX;
        }
    }
""", "cond wait: mutex released before the cond lock is taken (lost signal window)")
mut("c05_signal_wakes_two", "C05", "include/abti_waitlist.h",
    """        /* After updating p_thread->state, p_thread can be updated and
         * freed. */
        p_waitlist->p_head = p_next;
        if (!p_next)
            p_waitlist->p_tail = NULL;
    }
    ABTV_EVENT(ABTV_EV_WAITLIST_SIGNAL_DONE, p_waitlist, NULL);
}""",
    """        /* After updating p_thread->state, p_thread can be updated and
         * freed. */
        p_waitlist->p_head = p_next;
        if (!p_next)
            p_waitlist->p_tail = NULL;
        else if (p_next->p_next) {
            /* mutant: also wake the second waiter when three or more are queued */
            ABTI_thread *p_third = p_next->p_next;
            p_next->p_next = NULL;
            ABTI_ythread *p_y2 = ABTI_thread_get_ythread_or_null(p_next);
            if (p_y2) {
                ABTI_ythread_resume_and_push(p_local, p_y2);
                p_waitlist->p_head = p_third;
            } else {
                p_next->p_next = p_third;
            }
        }
    }
    ABTV_EVENT(ABTV_EV_WAITLIST_SIGNAL_DONE, p_waitlist, NULL);
}""", "cond signal wakes two ULT waiters when three or more are queued")
mut("c07_pop_gives_up_when_lock_busy", "C07", "pool/thread_queue.h",
    """    while (ABTD_spinlock_try_acquire(p_lock)) {
        /* Lock acquisition failed.  Check the size. */
        while (1) {""",
    """    while (ABTD_spinlock_try_acquire(p_lock)) {
        /* Lock acquisition failed.  Check the size. */
        return 1; /* mutant: report empty instead of waiting for the lock */
        while (1) {""", "pop reports an empty pool when the pool lock is busy")
mut("c07_randws_pop_many_tail_order", "C07", "pool/randws.c",
    None, None, "placeholder")
mut("c07_fifo_pop_many_stops_early", "C07", "pool/fifo.c",
    """        for (i = 0; i < max_threads; i++) {
            ABTI_thread *p_thread = thread_queue_pop_head(&p_data->queue);
            if (!p_thread)
                break;
            threads[i] = ABTI_thread_get_handle(p_thread);
        }
        *num_popped = i;
        ABTD_spinlock_release(&p_data->mutex);""",
    """        for (i = 0; i < max_threads && i < 2; i++) {
            ABTI_thread *p_thread = thread_queue_pop_head(&p_data->queue);
            if (!p_thread)
                break;
            threads[i] = ABTI_thread_get_handle(p_thread);
        }
        *num_popped = i;
        ABTD_spinlock_release(&p_data->mutex);""", "FIFO pop_many returns at most two units even if more were requested and present")
mut("c07_fifo_wait_push_many_order", "C07", "pool/fifo_wait.c",
    None, None, "placeholder")
mut("c11_blocked_published_before_switch", "C11", "include/abti_ythread.h",
    """    ABTI_ythread_switch_to_parent_internal(pp_local_xstream, p_self,
                                           ABTI_ythread_callback_suspend,
                                           (void *)p_self);""",
    """    /* mutant: publish BLOCKED before the context is saved */
    ABTD_atomic_release_store_int(&p_self->thread.state,
                                  ABT_THREAD_STATE_BLOCKED);
    ABTI_ythread_switch_to_parent_internal(pp_local_xstream, p_self,
                                           ABTI_ythread_callback_suspend,
                                           (void *)p_self);""", "ABT_self_suspend publishes BLOCKED before switching away (resume can race with the context save)")
mut("c11_yield_to_no_preincrement", "C11", "thread.c",
    """    ABTI_pool_inc_num_blocked(p_cur_ythread->thread.p_pool);
    int abt_errno = ABTI_pool_remove(p_tar_ythread->thread.p_pool,""",
    """    int abt_errno = ABTI_pool_remove(p_tar_ythread->thread.p_pool,""", "ABT_thread_yield_to without the pre-increment of num_blocked (counter goes negative)")
mut("c02_no_stack_align", "C02", "arch/fcontext/fcontext_x86_64_sysv_elf_gas.S",
    """    andq  $-16, %rdx
""", "", "new contexts start on an unaligned stack top", all=True)
mut("c02_switch_no_x87_restore", "C02", "arch/fcontext/fcontext_x86_64_sysv_elf_gas.S",
    """    /* restore x87 control-word */
    fldcw  0x4(%rsp)
""", "", "switch_fcontext does not restore the x87 control word", first=True)
mut("c02_switch_with_call_swaps_r14_r15", "C02", "arch/fcontext/fcontext_x86_64_sysv_elf_gas.S",
    """    popq  %r14  /* restrore R14 */
    popq  %r15  /* restrore R15 */""",
    """    popq  %r15  /* restrore R14 */
    popq  %r14  /* restrore R15 */""", "context restore pops r14/r15 in the wrong order (all paths)", all=True)
mut("c06_revert_migration_rebalance", "C06", "ythread.c",
    """    if (ABTU_unlikely(p_new_pool != p_pool)) {
        ABTI_pool_inc_num_blocked(p_new_pool);
        ABTI_pool_dec_num_blocked(p_pool);
    }""", """    (void)p_new_pool;""", "reverts fix d27794a: num_blocked unbalanced when a pending migration is handled at suspend")
mut("c06_has_unit_ignores_blocked", "C06", "sched/sched.c",
    """                if (ABTD_atomic_acquire_load_int32(&p_pool->num_scheds) == 1) {""",
    """                if (0 && ABTD_atomic_acquire_load_int32(&p_pool->num_scheds) == 1) {""", "termination check ignores blocked units of non-private pools served by a single scheduler")
mut("c06_resume_dec_before_push", "C06", "include/abti_ythread.h",
    """    /* Add the ULT to its associated pool */
    ABTI_pool_add_thread(&p_ythread->thread, ABT_POOL_CONTEXT_OP_THREAD_RESUME);

    /* Decrease the number of blocked threads */
    ABTI_pool_dec_num_blocked(p_pool);""",
    """    /* Decrease the number of blocked threads */
    ABTI_pool_dec_num_blocked(p_pool);

    /* Add the ULT to its associated pool */
    ABTI_pool_add_thread(&p_ythread->thread, ABT_POOL_CONTEXT_OP_THREAD_RESUME);""", "resume decrements num_blocked before pushing the unit (window with an empty pool and no blocked unit)")
mut("c06_suspend_unlock_no_inc", "C06", "ythread.c",
    """    ABTD_spinlock *p_lock = p_arg->p_lock;
    /* Increase the number of blocked threads */
    ABTI_pool_inc_num_blocked(p_prev->thread.p_pool);""",
    """    ABTD_spinlock *p_lock = p_arg->p_lock;""", "units blocking on a synchronisation object are not counted as blocked")
mut("c12_yield_ignores_cancel", "C12", "ythread.c",
    """    if (ABTI_thread_handle_request(&p_prev->thread, ABT_TRUE) &
        ABTI_THREAD_HANDLE_REQUEST_CANCELLED) {
        /* p_prev is terminated. */
    } else {
        /* Push p_prev back to the pool. */
        ABTI_pool_add_thread(&p_prev->thread, context);
    }
}""",
    """    if (ABTI_thread_handle_request(&p_prev->thread, ABT_FALSE) &
        ABTI_THREAD_HANDLE_REQUEST_CANCELLED) {
        /* p_prev is terminated. */
    } else {
        /* Push p_prev back to the pool. */
        ABTI_pool_add_thread(&p_prev->thread, context);
    }
}""", "a started ULT is never cancelled: neither the yield callback nor the pop path honours the request once the ULT has run",
    extra=[("include/abti_ythread.h", """        ABTI_thread_handle_request_on(p_local_xstream, p_thread, ABT_TRUE);""",
            """        ABTI_thread_handle_request_on(p_local_xstream, p_thread, p_thread->p_last_xstream == NULL ? ABT_TRUE : ABT_FALSE);""")])
mut("c12_revive_keeps_request", "C12", "thread.c",
    """    ABTD_atomic_relaxed_store_uint32(&p_thread->request, 0);""",
    """    (void)0; /* mutant: a stale cancel request survives the revive */""", "thread_revive does not clear pending requests", first=True)
mut("c13_revert_migrate_target_loop", "C13", "thread.c",
    """            if (ABTI_pool_get_ptr(p_sched->pools[p]) == p_thread->p_pool) {
                is_valid = ABT_FALSE;""",
    """            if (ABTI_pool_get_ptr(p_sched->pools[p]) != p_thread->p_pool) {
                is_valid = ABT_FALSE;""", "reverts fix 6e1032a: ABT_thread_migrate never finds a target")
mut("c13_revert_lost_request_fix", "C13", "thread.c",
    """    ABTI_thread_unset_request(p_thread, ABTI_THREAD_REQ_MIGRATE);

    /* Extracting an argument embedded in a migration request. */""",
    """    /* Extracting an argument embedded in a migration request. */""", "reverts fix c5be542 (clear the request at the end again)",
    extra=[("thread.c", """        p_mig_data->f_migration_cb(thread, p_mig_data->p_migration_cb_arg);
    }
    return ABT_SUCCESS;""", """        p_mig_data->f_migration_cb(thread, p_mig_data->p_migration_cb_arg);
    }
    ABTI_thread_unset_request(p_thread, ABTI_THREAD_REQ_MIGRATE);
    return ABT_SUCCESS;""")])
mut("c13_callback_twice", "C13", "thread.c",
    """        p_mig_data->f_migration_cb(thread, p_mig_data->p_migration_cb_arg);
    }
    return ABT_SUCCESS;""",
    """        p_mig_data->f_migration_cb(thread, p_mig_data->p_migration_cb_arg);
        p_mig_data->f_migration_cb(thread, p_mig_data->p_migration_cb_arg);
    }
    return ABT_SUCCESS;""", "migration callback invoked twice per migration")
mut("c16_no_rescan_under_lock", "C16", "include/abti_key.h",
    """    /* The linked list might have been extended. */
    p_elem = (ABTI_ktelem *)ABTD_atomic_acquire_load_ptr(pp_elem);
    while (p_elem) {""",
    """    /* mutant: the list is not re-scanned after taking the lock */
    p_elem = NULL;
    while (p_elem) {""", "key table: no re-scan of the chain under the lock (two setters append to the same tail)")
mut("c16_table_creation_unlocked", "C16", "include/abti_key.h",
    """            if (ABTD_atomic_bool_cas_weak_ptr(pp_ktable, NULL,
                                              ABTI_KTABLE_LOCKED)) {""",
    """            if (ABTD_atomic_acquire_load_ptr(pp_ktable) == NULL) {""", "lazy key-table creation without the CAS lock (two creators, one table lost)")
mut("c16_destructor_skips_chain", "C16", "key.c",
    """            p_elem =
                (ABTI_ktelem *)ABTD_atomic_relaxed_load_ptr(&p_elem->p_next);
        }
    }
    ABTI_ktable_mem_header *p_header =""",
    """            p_elem = NULL; /* mutant: only the first element of each slot */
        }
    }
    ABTI_ktable_mem_header *p_header =""", "ABTI_ktable_free runs destructors only for the first element of each slot")
mut("c17_new_rank_scan_unlocked", "C17", "stream.c",
    """                                     ABTI_xstream *p_newxstream, int rank)
{
    ABTD_spinlock_acquire(&p_global->xstream_list_lock);

    if (rank == -1) {""",
    """                                     ABTI_xstream *p_newxstream, int rank)
{
    if (rank == -1) {""", "smallest-unused-rank scan runs before the list lock is taken",
    extra=[("stream.c", """    /* Set the rank */
    p_newxstream->rank = rank;
    xstream_add_xstream_list(p_global, p_newxstream);""", """    /* Set the rank */
    ABTD_spinlock_acquire(&p_global->xstream_list_lock);
    p_newxstream->rank = rank;
    xstream_add_xstream_list(p_global, p_newxstream);"""),
           ("stream.c", """            if (p_xstream->rank == rank) {
                ABTD_spinlock_release(&p_global->xstream_list_lock);
                return ABT_FALSE;""", """            if (p_xstream->rank == rank) {
                return ABT_FALSE;""")])
mut("c17_free_keeps_count", "C17", "stream.c",
    """    xstream_remove_xstream_list(p_global, p_xstream);
    p_global->num_xstreams--;""",
    """    xstream_remove_xstream_list(p_global, p_xstream);""", "freeing a stream does not decrement the stream count")
mut("c17_change_rank_accepts_taken", "C17", "stream.c",
    """    while (p_next) {
        if (p_next->rank == rank) {
            ABTD_spinlock_release(&p_global->xstream_list_lock);
            return ABT_FALSE;
        } else if (p_next->rank > rank) {""",
    """    while (p_next) {
        if (p_next->rank == rank && rank > 3) {
            ABTD_spinlock_release(&p_global->xstream_list_lock);
            return ABT_FALSE;
        } else if (p_next->rank > rank) {""", "ABT_xstream_set_rank grants a taken rank when it is small")
mut("c14_no_free_unit_on_move_to_builtin", "C14", "include/abti_unit.h",
    """        ABTI_unit_unmap_thread(p_global, unit);
        ABT_pool old_pool = ABTI_pool_get_handle(p_thread->p_pool);
        p_thread->p_pool->required_def.p_free_unit(old_pool, unit);
        ABTI_unit_init_builtin(p_thread);""",
    """        ABTI_unit_unmap_thread(p_global, unit);
        ABTI_unit_init_builtin(p_thread);""", "free_unit is skipped when a unit leaves a user pool for a built-in pool")
mut("c14_map_reuses_live_entry", "C14", "unit.c",
    """        if (atomic_relaxed_load_unit(&p_cur->unit) == ABT_UNIT_NULL) {
            /* Empty element has been found.  Let's use this. */""",
    """        if (atomic_relaxed_load_unit(&p_cur->unit) == ABT_UNIT_NULL ||
            (p_cur->p_next && p_cur->p_next->p_next && !p_cur->p_next->p_next->p_next)) {
            /* Empty element has been found.  Let's use this. */""", "unit map overwrites a live entry when the bucket chain has a certain length")
mut("c14_create_unit_twice_on_user_to_user", "C14", "include/abti_unit.h",
    """        ABTI_unit_unmap_thread(p_global, unit);
        ABT_pool old_pool = ABTI_pool_get_handle(p_thread->p_pool);
        p_thread->p_pool->required_def.p_free_unit(old_pool, unit);
        p_thread->unit = new_unit;""",
    """        ABTI_unit_unmap_thread(p_global, unit);
        p_thread->unit = new_unit;""", "moving between two user pools leaks the old unit (free_unit not called)")
mut("c15_revert_unrounded_free", "C15", "include/abti_mem.h",
    """        void *p_stack = (void *)(((char *)p_stacktop) - alloc_stacksize);
        ABTU_free(p_stack);""",
    """        void *p_stack = (void *)(((char *)p_stacktop) - stacksize);
        (void)alloc_stacksize;
        ABTU_free(p_stack);""", "reverts fix 60c5bce: malloc'ed stacks are freed from p_stacktop - stacksize")
mut("c15_lifo_tag_not_incremented", "C15", "include/abti_sync_lifo.h",
    """                                                             p_next,
                                                             cur_tag + 1))) {
            return p_cur_top;""",
    """                                                             p_next,
                                                             cur_tag))) {
            return p_cur_top;""", "lock-free LIFO pop does not advance the tag (ABA)",
    extra=[("include/abti_sync_lifo.h", """                                                             p_elem,
                                                             cur_tag + 1))) {
            return;""", """                                                             p_elem,
                                                             cur_tag))) {
            return;""")])
mut("c15_bucket_returned_and_kept", "C15", "include/abti_mem_pool.h",
    None, None, "placeholder")
mut("c18_sched_basic_init_leak", "C18", "sched/basic.c",
    """    if (ABTI_IS_ERROR_CHECK_ENABLED && abt_errno != ABT_SUCCESS) {
        ABTU_free(p_data);
        ABTI_CHECK_ERROR(abt_errno);
    }""",
    """    if (ABTI_IS_ERROR_CHECK_ENABLED && abt_errno != ABT_SUCCESS) {
        ABTI_CHECK_ERROR(abt_errno);
    }""", "BASIC scheduler init leaks its data block when the pool array cannot be allocated")
mut("c18_eventual_dangling_on_value_alloc_failure", "C18", "eventual.c",
    """        if (ABTI_IS_ERROR_CHECK_ENABLED && abt_errno != ABT_SUCCESS) {
            ABTU_free(p_eventual);
            ABTI_HANDLE_ERROR(abt_errno);
        }""",
    """        if (ABTI_IS_ERROR_CHECK_ENABLED && abt_errno != ABT_SUCCESS) {
            ABTU_free(p_eventual);
            *neweventual = ABTI_eventual_get_handle(p_eventual);
            ABTI_HANDLE_ERROR(abt_errno);
        }""", "ABT_eventual_create returns a dangling handle when the value buffer cannot be allocated")
mut("c18_thread_create_many_partial", "C18", "thread.c", None, None, "placeholder")
mut("c01_fifo_no_second_empty_check", "C01", "pool/thread_queue.h",
    None, None, "placeholder")
mut("c03_join_no_final_wait", "C03", "thread.c",
    None, None, "placeholder")
mut("c19_middle_removal_stale_prev", "C19", "include/abti_waitlist.h",
    """                thread.p_next->p_prev = thread.p_prev;
""", """                (void)thread.p_prev; /* mutant: successor keeps a stale back link */
""", "timed-out middle waiter does not repair its successor's back link")
mut("c19_no_ready_recheck_under_lock", "C19", "include/abti_waitlist.h",
    """    ABT_bool is_timedout =
        (ABTD_atomic_relaxed_load_int(&thread.state) != ABT_THREAD_STATE_READY)
            ? ABT_TRUE
            : ABT_FALSE;""",
    """    ABT_bool is_timedout = ABT_TRUE;""", "timed wait: no READY re-check under the lock (signalled waiter unlinks itself again and reports TIMEDOUT)")


def run(name, runs, budget):
    prop, path, old, new, desc = M[name]
    if old is None:
        return {"mutant": name, "skipped": True}
    scratch = "/tmp/mutant_%s_%d" % (name, os.getpid())
    shutil.rmtree(scratch, ignore_errors=True)
    os.makedirs(scratch)
    subprocess.check_call(["rsync", "-a", "--exclude", ".libs", "--exclude", "*.o", "--exclude", "*.lo", "/repo/src", scratch + "/"])
    p = os.path.join(scratch, "src", path)
    s = open(p).read()
    mode = MODE.get(name, "one")
    if (mode == "one" and s.count(old) != 1) or s.count(old) == 0:
        shutil.rmtree(scratch, ignore_errors=True)
        return {"mutant": name, "error": "pattern occurs %d times" % s.count(old)}
    open(p, "w").write(s.replace(old, new) if mode == "all" else s.replace(old, new, 1))
    for (p2, o2, n2) in EXTRA.get(name, []):
        pp = os.path.join(scratch, "src", p2)
        s2 = open(pp).read()
        if s2.count(o2) < 1:
            shutil.rmtree(scratch, ignore_errors=True)
            return {"mutant": name, "error": "extra pattern not found in " + p2}
        open(pp, "w").write(s2.replace(o2, n2, 1))
    t0 = time.time()
    cmd = [os.path.join(VERIF, "bin", "check"), prop, "--repo", scratch, "--no-evidence"] + CHECK_ARGS.get(name, [])
    if runs:
        cmd += ["--runs", str(runs)]
    if budget:
        cmd += ["--budget", str(budget)]
    r = subprocess.run(cmd, stdout=subprocess.PIPE, stderr=subprocess.STDOUT)
    out = r.stdout.decode(errors="replace")
    shutil.rmtree(scratch, ignore_errors=True)
    viol = [l for l in out.split("\n") if l.startswith("VIOLATION")]
    cls = [l.strip() for l in out.split("\n") if l.strip().startswith("class=")]
    return {"mutant": name, "property": prop, "description": desc, "exit": r.returncode, "detected": r.returncode == 1 and bool(viol),
            "classes": [c[:160] for c in cls], "wall_s": round(time.time() - t0, 1), "summary": out.strip().split("\n")[-1][:200]}



mut("c01_revert_handoff_same_scheduler", "C01", "include/abti_ythread.h",
    """                p_self->thread.p_parent == p_joiner->thread.p_parent &&
""", "", "reverts fix 0173e94: a terminating ULT jumps into a joiner that belongs to another scheduler")
mut("c18_revert_ktable_creation_retry", "C18", "include/abti_key.h",
    """                if (p_ktable == NULL) {
                    /* The lock holder failed to allocate the table and has
                     * released the lock.  Try once more. */
                    continue;
                }
""", "", "reverts fix 2249b12: a setter waiting for the key table goes on with NULL when its creation failed")
mut("c18_revert_add_sched_keeps_scheduler", "C18", "thread.c",
    """                    int ret = ABTI_ktable_set_unsafe(p_global, p_local,
                                                     &p_keytable,
                                                     &g_thread_sched_key, NULL);
                    ABTI_ASSERT(ret == ABT_SUCCESS);
                    (void)ret;
""", "", "reverts fix 2ad1c5c: a failed ABT_pool_add_sched frees an automatic scheduler")

mut("c18_revert_create_many_entry_after_check", "C18", "thread.c",
    """            /* TODO: Release threads that have been already created. */
            ABTI_CHECK_ERROR(abt_errno);
            newthread_list[i] = ABTI_ythread_get_handle(p_newthread);
""", """            newthread_list[i] = ABTI_ythread_get_handle(p_newthread);
            /* TODO: Release threads that have been already created. */
            ABTI_CHECK_ERROR(abt_errno);
""", "reverts fix ad9f300: the entry of a ULT that could not be created is filled from an unset local (shows in the lazy-stack variant V3: thorough tier)")
mut("c09_future_compartments_uint16", "C09", "include/abti.h",
    """    size_t num_compartments;
    void **array;""", """    uint16_t num_compartments;
    void **array;""", "the number of compartments of a future is kept in 16 bits (shows with >= 65536 compartments: rare deep runs, thorough tier)")
CHECK_ARGS["c09_future_compartments_uint16"] = ["--tier", "thorough", "--variants", "V0", "--budget", "120"]
CHECK_ARGS["c18_revert_create_many_entry_after_check"] = ["--tier", "thorough", "--variants", "V3", "--budget", "200"]


def main():
    ap = argparse.ArgumentParser()
    ap.add_argument("cmd")
    ap.add_argument("name", nargs="?")
    ap.add_argument("--runs", type=int, default=0)
    ap.add_argument("--budget", type=float, default=0)
    a = ap.parse_args()
    if a.cmd == "list":
        for k, v in M.items():
            print(k, v[0], v[4])
        return
    names = list(M) if a.name == "all" else [n for n in M if a.name in n]
    res = []
    for n in names:
        r = run(n, a.runs, a.budget)
        print(json.dumps(r))
        sys.stdout.flush()
        res.append(r)
    p = os.path.join(VERIF, "evidence", "sensitivity.json")
    old = {}
    if os.path.exists(p):
        old = json.load(open(p))
    for r in res:
        if not r.get("skipped"):
            old[r["mutant"]] = r
    json.dump(old, open(p, "w"), indent=1)


if __name__ == "__main__":
    main()
