#!/bin/bash
# run_seeded.sh <seeded-id> [<property> ...]
# Applies /verif/seeded/<id>/patch.diff (or patch_repo.diff, the same change re-based onto the
# current /repo HEAD when the original no longer applies textually) to /repo's working tree,
# runs the quick check of the property (default: the one in meta.json), undoes the change, and
# records the outcome in meta.json ("detected_by_quick_check", "detected_class").
id=$1; shift
out=/verif/seeded/$id
[ -d "$out" ] || { echo "no such seeded change: $id"; exit 2; }
props="$*"
[ -n "$props" ] || props=$(python3 -c "import json;print(json.load(open('$out/meta.json'))['property'])")
p=$out/patch.diff; [ -f $out/patch_repo.diff ] && p=$out/patch_repo.diff
# SCRATCH=1: work on a throw-away copy of /repo's working tree under /tmp instead (so that a
# long background run against /repo is not disturbed); the copy is removed afterwards.
R=/repo; REPOARG=""
if [ -n "$SCRATCH" ]; then
  R=/tmp/seedrun_$id; rm -rf $R; mkdir -p $R
  rsync -a --exclude .git --exclude '*.o' --exclude '*.lo' --exclude .libs --exclude test --exclude examples /repo/ $R/
  ( cd $R && git init -q . 2>/dev/null )
  REPOARG="--repo $R"
fi
cd $R || exit 2
if [ -z "$SCRATCH" ] && [ -n "$(git status --porcelain --untracked-files=no)" ]; then echo "/repo working tree not clean"; exit 2; fi
git apply --check $p || { echo "patch does not apply to /repo"; [ -n "$SCRATCH" ] && rm -rf $R; exit 2; }
git apply $p
for prop in $props; do
  ( cd /verif && bin/check $prop --no-evidence $REPOARG > $out/check_output_$prop.txt 2>&1 ); rc=$?
  echo "$id: check $prop exit=$rc"
  grep -E "class=" $out/check_output_$prop.txt | head -3 | cut -c1-260
  python3 - <<PY
import json,re
m=json.load(open("$out/meta.json"))
txt=open("$out/check_output_$prop.txt").read()
cls=sorted(set(re.findall(r"class=(\S+)",txt)))
d=m.setdefault("checks",{})
d["$prop"]={"exit":$rc,"detected":$rc==1,"classes":cls}
if "$prop"==m["property"]:
    m["detected_by_quick_check"]="yes" if $rc==1 else "no"; m["check_exit"]=$rc; m["detected_class"]=cls
json.dump(m,open("$out/meta.json","w"),indent=1)
PY
done
if [ -n "$SCRATCH" ]; then cd /; rm -rf $R; else git checkout -- .; fi
