#!/bin/bash
# prep_worktree.sh <dir>: scratch git worktree of /repo (HEAD) with the generated autotools
# files copied in, configured and built, ready for `make -C test check`.
set -e
d=$1
git -C /repo worktree add --detach "$d" HEAD >/dev/null 2>&1
rsync -a --ignore-existing --exclude .git --exclude '*.o' --exclude '*.lo' --exclude '.libs' --exclude '.deps' --exclude '*.la' --exclude '*.log' --exclude '*.trs' /repo/ "$d"/
cd "$d"
# regenerate config.status-dependent files for the new location
./configure --quiet >/dev/null 2>&1 || ./configure >/dev/null
make -j8 >/dev/null 2>&1
echo "ready: $d"
