"""Free-text parts of MANIFEST.json per property."""
COMMON_NOTE = ("Trusted base: the simulator (sim/), the hook placement (every ABTD_atomic_* op, every context switch, redirected libc calls), "
               "SC interleavings only, stubbed pthread/futex/clock; generated programs are legal by construction so any hang is the runtime's. "
               "Sampling, not enumeration.")
TECH = "deterministic simulation with fault injection: seeded search over schedules/programs/configurations; "
TEXT = {
    "C01": {
        "level_text": "Seeded exploration of creation forests (<= 24 named/unnamed ULTs and tasklets created from the primary ULT, ULTs, tasklets and external threads with create, create_on_xstream, create_many, create_to and revive; bodies with yields, mutex sections, child creation and joins) over randomised stream counts, pool kinds, predefined schedulers, shared/private pools and stacked schedulers (ABT_pool_add_sched); exactly-once counters, function/argument identity and unit kind are checked inside every unit and at every join/free, ABT_xstream_join of the only stream serving a pool, and ABT_finalize; bounded liveness catches dropped units.",
        "level_note": COMMON_NOTE,
        "technique": TECH + "exactly-once counters as run-time invariants + bounded-liveness oracle + allocation ledger, spurious wake-ups/early sleeps/stalls injected",
    },
    "C03": {
        "level_text": "Seeded exploration of the join matrix: caller kind (primary ULT, ULT, tasklet, external thread) x target kind (ULT/tasklet) x target behaviour (returns, ABT_self_exit/ABT_thread_exit, cancelled, blocks first) x join issued early/mid/late x join+free, free, join_many, free_many; at every return the target's completion flag and last write are checked, ABT_thread_get_state must be TERMINATED, free must NULL the handle, the target must not run afterwards; the ledger catches double release and bounded liveness catches a joiner that is never released.",
        "level_note": COMMON_NOTE,
        "technique": TECH + "completion/visibility oracle at join return + state check + bounded-liveness oracle, spurious futex wake-ups and targeted delays at the join handshake",
    },
    "C05": {
        "level_text": "Seeded exploration of waiters (ULT, external thread) and signallers issuing signal/broadcast inside and outside the mutex; a credit-interval reference model updated under the mutex (waiters registered and not returned, waiters that a later in-mutex signaller must find queued, bounds on wake-ups issued) decides: no wait returns without a wake-up that can have been issued (no spurious/duplicated wake-up), every wake-up that was certainly owed arrives before any flushing broadcast (no lost signal), and the returner holds the mutex.",
        "level_note": COMMON_NOTE,
        "technique": TECH + "credit-interval reference model checked at every wait return and at a quiescent point + mutex holder model + bounded-liveness oracle; spurious futex wake-ups must not surface",
    },
    "C19": {
        "level_text": "Seeded exploration under a virtual clock: timed and untimed cond waiters (ULT and external) with deadlines in the past, a few quanta ahead and never, signals/broadcasts inside and outside the mutex, forward clock jumps, spurious wake-ups and early nanosleep returns; TIMEDOUT is accepted only when the virtual clock has reached the deadline, the credit-interval model of C05 (timed waiters stop counting as certainly queued once their deadline has passed) catches a timed-out waiter that consumed a signal or left the queue damaged (lost wake-up, crash or assertion in the runtime); blocking pool pops (pop_wait/pop_timedwait on FIFO, FIFO_WAIT, RANDWS) must return every unit pushed while they wait exactly once and return empty-handed in bounded virtual time.",
        "level_note": COMMON_NOTE,
        "technique": TECH + "virtual-clock deadline oracle + credit-interval reference model + exactly-once token accounting for blocking pops, clock jumps/spurious wake-ups/early sleeps injected",
    },
    "C04": {
        "level_text": "Seeded exploration: 2..6 callers (ULT, tasklet, external thread) issue lock/lock_low/lock_high/spinlock/trylock/unlock(_se/_de) on dynamic, static, plain and recursive mutexes over randomised stream/pool/scheduler topologies; a harness-side holder model checks exclusion and recursion at every acquisition and inside critical sections, failed trylocks must overlap a lock..unlock interval, and liveness (deadlock / no progress in the fair phase) catches lost wake-ups.",
        "level_note": COMMON_NOTE,
        "technique": TECH + "holder reference model + trylock interval rule + bounded-liveness oracle, spurious futex wake-ups and stalls injected",
    },
}
NA = {
    "C20": "pure functions of their input (config hash tables of a single caller, ABTU_ato*, affinity grammar, env clamping): no schedule, clock, fault or interleaving in the property, so deterministic simulation has nothing to decide (DESIGN.md 6/C20)",
}
