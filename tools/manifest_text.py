"""Free-text parts of MANIFEST.json per property."""
COMMON_NOTE = ("Trusted base: the simulator (sim/), the hook placement (every ABTD_atomic_* op, every context switch, redirected libc calls), "
               "SC interleavings only, stubbed pthread/futex/clock; generated programs are legal by construction so any hang is the runtime's. "
               "Sampling, not enumeration.")
TECH = "deterministic simulation with fault injection: seeded search over schedules/programs/configurations; "
TEXT = {
    "C14": {
        "level_text": "Seeded exploration of user-defined pools (ABT_pool_user_def and the legacy ABT_pool_def) whose unit handles are crafted integers that all collide in one bucket of the 256-entry unit->work-unit table and whose pop order comes from the PRNG, mixed with a built-in pool under BASIC/PRIO/RANDWS schedulers on 1..3 streams; ULTs and tasklets are created in, re-associate themselves with (ABT_self_set_associated_pool) and are freed from these pools while suspended ULTs keep stable units in the same bucket; the user pool's call log decides: create_unit exactly once per association, free_unit exactly once when it ends, never a push/pop/free of a dead or foreign unit, no unit left queued; ABT_thread_get_unit / ABT_unit_get_thread must translate exactly for every stable live unit at every query; every unit runs exactly once.",
        "level_note": COMMON_NOTE,
        "technique": TECH + "call-log reference model of the user pool (create/free pairing, liveness of handles) + translation queries + exactly-once counters, seeded (chaos) pop order and colliding handles",
    },
    "C15": {
        "level_text": "Seeded exploration of (a) a white-box driver of ABTI_mem_pool_*: 2..4 simulated threads, each with its own local pool over one shared global pool (1..8 headers per bucket, four page sizes, every large-page request list, optional guard pages), allocate, scribble, free and hand blocks to each other: every block handed out must be disjoint from all live blocks and cache-line aligned, a block's content must survive until its owner frees it, and after destroying the pools the allocation ledger must be back at its baseline (the lock-free LIFO's ABA window is opened by the scheduling point between the two halves of the tagged-pointer accesses); (b) ULTs with default, attribute-sized (16 KiB..16 MiB, mostly not multiples of 64) and user-supplied (every 8-byte offset) stacks created and freed on any stream or external thread: each must run inside its declared stack, get at least the requested size, not overlap any live ULT's stack, keep the bottom of its stack intact across a yield, and be freed without upsetting the allocator (ledger: no interior-pointer or double free, nothing left after ABT_finalize).",
        "level_note": COMMON_NOTE,
        "technique": TECH + "disjointness/alignment/conservation invariants over a white-box memory-pool driver + stack containment and pattern checks + allocation ledger, stall-after-publish inside the lock-free LIFO",
    },
    "C17": {
        "level_text": "Seeded exploration of histories of ABT_xstream_create / create_with_rank / set_rank / join+free / get_num issued concurrently by ULTs and external threads (each stream is managed by its creator); the recorded invoke/return history is checked for linearizability against a rank-allocator model (smallest unused rank, grant iff free, reusable after free, count = live streams), owners re-read the ranks of their streams after every operation; a lifecycle scenario runs work, joins, optionally replaces the main scheduler of the joined stream, revives and joins again up to 4 times (state TERMINATED/RUNNING, rank unchanged, work completes exactly once each time) and replaces the caller's own main scheduler, after which the caller and new work must keep running.",
        "level_note": COMMON_NOTE + " Rank histories are <= 24 operations; search capped at 2e6 nodes.",
        "technique": TECH + "linearizability check of recorded rank histories against an executable rank-allocator model + lifecycle state assertions + bounded-liveness oracle, spurious cond wake-ups in the native-thread state machine",
    },
    "C18": {
        "level_text": "Fault enumeration: for each of 28 creating/initialising routines (streams, schedulers, pools, ULT/tasklet creation incl. attribute and user stacks, create_many, revive, keys and chained key tables, migration data, every synchronisation object, timers, configs, main-scheduler replacement) and for ABT_init itself (optionally with an affinity string), in a fresh, a populated (second stream, blocked ULT with key values, mutex) and a busy runtime, the k-th allocation-class call made by the calling thread inside that call fails for k = 1, 2, ... until the armed failure no longer fires (malloc/posix_memalign, mmap, mprotect, pthread_create, pthread_*_init; which classes is drawn per run); after every failing call: error code returned, handle untouched or the documented NULL handle, getters of all pre-existing objects unchanged, the same call succeeds when retried, a follow-up workload on the old objects passes, and after ABT_finalize the allocation ledger is empty; calls that succeed through a documented fall-back are counted separately. The schedule of the other streams is sampled while the failure position is swept systematically.",
        "level_note": COMMON_NOTE + " Only allocations issued by the calling thread inside the routine are failed; assertion-on-mprotect-failure of the documented strict guard mode is excluded.",
        "technique": TECH + "systematic sweep of the failing allocation index per call (fault attached to the operation) + before/after state comparison + retry + allocation ledger at ABT_finalize",
    },
    "C16": {
        "level_text": "Seeded exploration of key create/set/get over up to 40 keys and ABT_KEY_TABLE_SIZE in {1,...,64} (chains longer than the in-descriptor storage) on ULTs, tasklets and the primary ULT through ABT_key_set/get and ABT_self_set/get_specific, while another ULT or external thread sets keys of the running owners with ABT_thread_set_specific (racing the lazy table creation and chain appends); a per-unit reference map decides every get (single writer per (unit,key); remotely written keys must never go back in time or show another unit's value), and a destructor log decides that at free / ABT_finalize each destructor ran exactly once for every non-NULL value still stored and never for overwritten values; the ledger catches leaked table blocks.",
        "level_note": COMMON_NOTE,
        "technique": TECH + "per-unit reference map + destructor log (exactly-once) + allocation ledger, concurrent remote setters under the seeded scheduler",
    },
    "C02": {
        "level_text": "Seeded exploration with an exact context-ownership monitor at the hook placed immediately before every user-level context switch (a context may be entered only if no simulated stream still owns it; ownership of the context being left is released exactly where its stack pointer is stored): suspend/resume races with resumers on other streams and directed-switch chains over every primitive (yield, yield_to, thread_yield_to, suspend_to, resume_yield_to, resume_suspend_to, exit_to, resume_exit_to, create_to, revive_to) with targets started or not, in private and shared pools, over memory-pool, malloc'ed odd-size and user-supplied 8-byte-offset stacks; every switch is wrapped in an assembly shim that keeps distinct patterns in rbx, rbp, r12-r15 and non-default MXCSR / x87 control words, stack-resident pattern arrays are compared across the switch, entry alignment, containment in the declared stack and pairwise disjointness of live stacks are asserted.",
        "level_note": COMMON_NOTE,
        "technique": TECH + "context-ownership invariant at the switch hook + register/FP-control/stack canaries + alignment and disjointness assertions, stall-after-publish and targeted delays",
    },
    "C06": {
        "level_text": "Seeded exploration of units (ULTs and tasklets, unnamed) that yield, request migration and block on an eventual, self-suspend, a mutex or a condition variable inside pools served by exactly one stream; an external thread releases them only after ABT_xstream_join / ABT_xstream_free / ABT_finalize was issued; at return every unit of the stream's private pools must have terminated, the stream must be TERMINATED, num_blocked is never negative while the join is pending, ABT_finalize completes the rest; bounded liveness catches a join that never returns.",
        "level_note": COMMON_NOTE,
        "technique": TECH + "completion oracle at join/free/finalize return + num_blocked invariant (white-box read between steps) + bounded-liveness oracle, spurious wake-ups and stalls injected",
    },
    "C07": {
        "level_text": "Seeded exploration of FIFO, FIFO_WAIT and RANDWS pools of every access mode, not attached to any scheduler, driven directly through the pool API (push, push_many, pop, pop_many, pop_wait, pop_timedwait, remove, legacy unit API, both RANDWS ends) by as many simulated client threads as the access mode permits; the recorded invoke/return history (stamped with the simulator's global step number) is checked for linearizability against a FIFO queue / double-ended queue model (empty or short pops linearize only at an instant with too few units), every unit is held by exactly one client at any time, size and emptiness are exact at quiescence.",
        "level_note": COMMON_NOTE + " Histories are <= 48 operations; undecided searches (1e6 nodes) are counted, never passed or failed.",
        "technique": TECH + "Wing-Gong linearizability check of recorded histories against a sequential queue/deque model + token conservation, spurious cond wake-ups, early nanosleep and clock jumps injected",
    },
    "C08": {
        "level_text": "Seeded exploration of 1..6 waiters (ULT, external thread; a tasklet must get the documented error) over 1..5 rounds with ABT_barrier_reinit (possibly with another count) between some rounds, fast callers re-entering while slow ones are still leaving; per-round arrival counters are checked the moment each wait returns (nobody released before the last arrival, no round mix-up) and every waiter must return; the execution-stream barrier is checked the same way with one caller per stream (V0: wrapper over the simulated pthread barrier, thorough tier V1: Argobots' own sense-reversal barrier).",
        "level_note": COMMON_NOTE,
        "technique": TECH + "per-round arrival counters checked at every return + bounded-liveness oracle, slow-node schedules so that callers lap each other, spurious futex wake-ups",
    },
    "C09": {
        "level_text": "Seeded exploration of eventual rounds (wait/set/test by ULTs, tasklets, external threads; racing setters; reset at quiescent points; 0-byte and 8-byte values unique per round and setter) and futures with 0..5 compartments with or without callback, late sets and testers: no wait returns and no test reports ready before a set was invoked, the value read is the successful setter's, exactly one set per round succeeds, the callback runs exactly once with every value and before any waiter returns, late sets fail, every waiter returns.",
        "level_note": COMMON_NOTE,
        "technique": TECH + "ready-before-set / value / callback-order oracles at every return + bounded-liveness oracle, spurious futex wake-ups",
    },
    "C10": {
        "level_text": "Seeded exploration of 2..6 lockers (ULT, external thread) issuing rdlock/wrlock/unlock with pauses or yields inside sections; a holder model checks writer exclusivity and reader/writer exclusion at entry and throughout every section; reader inclusion is forced: a reader keeps its lock until a second reader has acquired one (a hang if readers excluded each other) while writers queue; every locker must finish.",
        "level_note": COMMON_NOTE,
        "technique": TECH + "holder reference model + forced-inclusion plan + bounded-liveness oracle; inherits the mutex/cond fault kinds",
    },
    "C11": {
        "level_text": "Seeded exploration of (a) ULTs in pools served by several streams that suspend themselves while resumers on other streams / external threads poll for BLOCKED and resume at once: a suspended ULT must not run before its resume and runs exactly once per resume (the context-ownership monitor makes 'resumed while still running' exact), num_blocked never negative and balanced at the end; (b) directed-switch chains over all ten primitives among 2..6 ULTs, targets never started / held / blocked / terminated, private and shared pools: the unit that gets control next on the calling stream must be the named target, on the caller's stream, and the caller must be READY-in-pool / BLOCKED / TERMINATED as documented (asserted exactly when only the calling stream serves the pool).",
        "level_note": COMMON_NOTE,
        "technique": TECH + "slice-order oracle per stream + documented-caller-state assertions + context-ownership invariant + num_blocked balance, stall-after-publish at the BLOCKED store",
    },
    "C12": {
        "level_text": "Seeded exploration of per-unit histories create / cancel / join / revive (up to 4 incarnations) / free over ULTs and tasklets with behaviours return, yields, endless yield loop, suspend, exit; cancel issued by a driver on another stream or an external thread at an arbitrary instant of the target's execution. A state-machine monitor observes every store to the unit's state word (hook granularity) and rejects any edge outside READY->RUNNING->(BLOCKED->READY->RUNNING)*->TERMINATED(->READY on revive); a scheduling point invoked after ABT_thread_cancel returned must not return; code after exit must not run; non-cancelled incarnations run exactly once, the joiner is always released, the ledger catches double or missing release under recycled descriptors.",
        "level_note": COMMON_NOTE,
        "technique": TECH + "state-machine monitor over every state store + cancel-deadline oracle + exactly-once counters + allocation ledger",
    },
    "C13": {
        "level_text": "Seeded exploration of migration requests to pools issued by the unit itself or by an issuer on another stream / an external thread at arbitrary instants, repeated and overwritten, racing with the unit's yields and suspends; every accepted request is recorded with the simulator steps of its invocation and return, and at every slice the unit's ABT_self_get_last_pool must be the target of the last request that had returned before the scheduling point was invoked (requests overlapping the scheduling point or still in flight may be honoured now or next time); no move without a request, callback count between observed moves and accepted requests, exactly-once completion, num_blocked balanced; API rules: same-pool and non-migratable requests rejected, ABT_thread_migrate succeeds iff another running stream with a different pool exists.",
        "level_note": COMMON_NOTE,
        "technique": TECH + "request/slice history oracle over simulator step stamps + callback accounting + error-code rules",
    },
    "C01": {
        "level_text": "Seeded exploration of creation forests (<= 24 named/unnamed ULTs and tasklets created from the primary ULT, ULTs, tasklets and external threads with create, create_on_xstream, create_many, create_to and revive; bodies with yields, mutex sections, child creation and joins) over randomised stream counts, pool kinds, predefined schedulers, shared/private pools and stacked schedulers (ABT_pool_add_sched); exactly-once counters, function/argument identity and unit kind are checked inside every unit and at every join/free, ABT_xstream_join of the only stream serving a pool, and ABT_finalize; bounded liveness catches dropped units.",
        "level_note": COMMON_NOTE,
        "technique": TECH + "exactly-once counters as run-time invariants + bounded-liveness oracle + allocation ledger, spurious wake-ups/early sleeps/stalls injected",
    },
    "C03": {
        "level_text": "Seeded exploration of the join matrix: caller kind (primary ULT, ULT, tasklet, external thread) x target kind (ULT/tasklet) x target behaviour (returns, ABT_self_exit/ABT_thread_exit, cancelled, blocks first) x join issued early/mid/late x join+free, free, join_many, free_many; at every return the target's completion flag and last write are checked, ABT_thread_get_state must be TERMINATED, free must NULL the handle, the target must not run afterwards; the ledger catches double release and bounded liveness catches a joiner that is never released.",
        "level_note": COMMON_NOTE,
        "technique": TECH + "completion/visibility oracle at join return + state check + bounded-liveness oracle, spurious futex wake-ups and targeted delays at the join handshake",
    },
    "C05": {
        "level_text": "Seeded exploration of waiters (ULT, external thread) and signallers issuing signal/broadcast inside and outside the mutex; a credit-interval reference model updated under the mutex (waiters registered and not returned, waiters that a later in-mutex signaller must find queued, bounds on wake-ups issued) decides: no wait returns without a wake-up that can have been issued (no spurious/duplicated wake-up), every wake-up that was certainly owed arrives before any flushing broadcast (no lost signal), and the returner holds the mutex.",
        "level_note": COMMON_NOTE,
        "technique": TECH + "credit-interval reference model checked at every wait return and at a quiescent point + mutex holder model + bounded-liveness oracle; spurious futex wake-ups must not surface",
    },
    "C19": {
        "level_text": "Seeded exploration under a virtual clock: timed and untimed cond waiters (ULT and external) with deadlines in the past, a few quanta ahead and never, signals/broadcasts inside and outside the mutex, forward clock jumps, spurious wake-ups and early nanosleep returns; TIMEDOUT is accepted only when the virtual clock has reached the deadline, the credit-interval model of C05 (timed waiters stop counting as certainly queued once their deadline has passed) catches a timed-out waiter that consumed a signal or left the queue damaged (lost wake-up, crash or assertion in the runtime); blocking pool pops (pop_wait/pop_timedwait on FIFO, FIFO_WAIT, RANDWS) must return every unit pushed while they wait exactly once and return empty-handed in bounded virtual time.",
        "level_note": COMMON_NOTE,
        "technique": TECH + "virtual-clock deadline oracle + credit-interval reference model + exactly-once token accounting for blocking pops, clock jumps/spurious wake-ups/early sleeps injected",
    },
    "C04": {
        "level_text": "Seeded exploration: 2..6 callers (ULT, tasklet, external thread) issue lock/lock_low/lock_high/spinlock/trylock/unlock(_se/_de) on dynamic, static, plain and recursive mutexes over randomised stream/pool/scheduler topologies; a harness-side holder model checks exclusion and recursion at every acquisition and inside critical sections, failed trylocks must overlap a lock..unlock interval, and liveness (deadlock / no progress in the fair phase) catches lost wake-ups.",
        "level_note": COMMON_NOTE,
        "technique": TECH + "holder reference model + trylock interval rule + bounded-liveness oracle, spurious futex wake-ups and stalls injected",
    },
}
NA = {
    "C20": "pure functions of their input (config hash tables of a single caller, ABTU_ato*, affinity grammar, env clamping): no schedule, clock, fault or interleaving in the property, so deterministic simulation has nothing to decide (DESIGN.md 6/C20)",
}

# additions of the later sessions (scenario families and monitors added after the texts above were written)
ADD = {
    "C01": "Also: streams with three or four pools of their own; units of cooperative stacked schedulers that create ULTs in the runtime's pools and join them; the dispatch and pool-reuse scenarios shared with C14 / C06.",
    "C02": "Also: switches performed on the caller's behalf by short-lived unnamed ULTs on malloc'ed stacks (exit_to / resume_exit_to by a unit that is freed during the switch); the yield_to-race scenario.",
    "C03": "Also: the joiner revives the joined unit once and joins its second life (whatever ended the first one, including a cancellation before it ever ran). A joiner of the ULT that ends its stream with ABT_xstream_exit (scenario exit-of-a-stream).",
    "C04": "Also: the condition-variable scenario on a recursive mutex (ownership given up and regained inside the wait); the wait-list monitor M-waitlist (well-formed list over exactly the waiting callers after every enqueue / wake-up pass).",
    "C05": "Also: a white-box layer over the wait-list events: release-and-wait atomicity checked at every signal / broadcast issued under the mutex, ABT_SUCCESS exactly for callers a signal dequeued, TIMEDOUT exactly for callers that unlinked themselves at or after the deadline; tasklet callers (refused for ABT_cond_wait, served for ABT_cond_timedwait); M-waitlist. Scenario rejected-free: ABT_cond_free with waiters is refused, leaves the object usable, and a broadcast then releases every waiter.",
    "C06": "Also: a private pool listed by a second scheduler object (spare, or replaced and not yet freed); pool re-use by successive streams; units that replace their stream's main scheduler during the join. Scenario revive-lifecycle: a revived stream left idle before new work arrives must keep running until it is joined again, and that join waits for the new work.",
    "C07": "Also: one ABT_pool_push_threads call of 60..100 units racing with a single push and an unbounded pop_many must stay one queue operation; blocking pops that come back empty-handed must not have missed a push (FIFO_WAIT, single consumer, fault-free batches); deadlines in the past. A read-only ABT_pool_print_all_threads walk as a pool operation (only pushed units, each once; exactly the pool's content for a single client).",
    "C08": "Also: the execution-stream barrier with external threads, tasklets and a single stream; a waiter that receives a cancellation request while blocked in the last round; the barrier freed by the first released waiter; M-waitlist.",
    "C09": "Also: re-arm (set immediately followed by reset while released waiters are still on their way out); the waiter creates the eventual / future and frees it as soon as its wait returned (free quarantine shows late writes of the setter); tasklet waits are refused and leave the object intact; M-waitlist.",
    "C10": "Also: tasklet callers, which are refused and must leave the lock usable.",
    "C11": "Also: the proxy switches described for C02; migration and cancellation requests pending at directed switches. ABT_thread_revive_to of a unit that has not terminated must be refused.",
    "C12": "Also: a cancellation that certainly precedes the unit's first pop (canceller on the only stream serving the pool, no yield in between): the function must not run, tasklets included; scenario failed-revives (fault injection).",
    "C13": "Also: a running stream whose scheduler has no pool (never a target); joined-but-not-freed streams; requests through streams and schedulers; the sequence scenario. A request accepted but not served before the unit terminates must not survive ABT_thread_revive.",
    "C14": "Also: scenario failed-associations (fault injection: the k-th allocation of an associating call fails, or create_unit declines, over two user-defined pools with separate unit accounting); legacy pools with p_pop_timedwait under BASIC_WAIT schedulers; dispatch by unit handle; bulk moves.",
    "C15": "Also: one attribute object per creator re-used across creations (user stack, then library-allocated stack) with a read-back check; churn; cancel-at-pop; monitor M-local-pool (stream-local memory pools are used by one OS thread at a time).",
    "C16": "Also: runs that start after hundreds or tens of thousands of keys were created and deleted (high key ids); keys deleted and replaced while units hold values for them; concurrently created keys.",
    "C17": "Also: streams ended by ABT_xstream_cancel / ABT_xstream_exit / ABT_sched_exit with work queued, then revived. Scenario failed-sched-replacements (fault injection into ABT_xstream_set_main_sched[_basic]: the stream keeps its old scheduler, can be revived, run a unit and be joined again); revived streams left idle.",
    "C18": "Now 48 table entries (incl. ABT_thread_migrate, moves between two user-defined pools, ABT_pool_push_threads of 70 units, printing routines), create_unit declining as a second fault kind, scenario migration-handler (the failure happens while a migration request is being served) and scenario keytable-race (two first setters of one unit, one failing). ULT / tasklet creation on built-in and user-defined pools enumerated from an external thread; after attempts on a joined stream the stream is revived, runs a unit and is joined again.",
    "C19": "Also: 'never' deadlines (LONG_MAX and other huge tv_sec values), tasklet timed waiters, the white-box layer described for C05, far-deadline blocking pops and the missed-push oracle described for C07; M-waitlist. Pool print walks between blocking pops on private pools.",
}
for _k, _v in ADD.items():
    TEXT[_k]["level_text"] += " " + _v
TEXT["C14"]["technique"] += "; fault injection (failing allocation / declining create_unit) in the failed-associations scenario"
