"""Free-text parts of MANIFEST.json per property."""
COMMON_NOTE = ("Trusted base: the simulator (sim/), the hook placement (every ABTD_atomic_* op, every context switch, redirected libc calls), "
               "SC interleavings only, stubbed pthread/futex/clock; generated programs are legal by construction so any hang is the runtime's. "
               "Sampling, not enumeration.")
TECH = "deterministic simulation with fault injection: seeded search over schedules/programs/configurations; "
TEXT = {
    "C04": {
        "level_text": "Seeded exploration: 2..6 callers (ULT, tasklet, external thread) issue lock/lock_low/lock_high/spinlock/trylock/unlock(_se/_de) on dynamic, static, plain and recursive mutexes over randomised stream/pool/scheduler topologies; a harness-side holder model checks exclusion and recursion at every acquisition and inside critical sections, failed trylocks must overlap a lock..unlock interval, and liveness (deadlock / no progress in the fair phase) catches lost wake-ups.",
        "level_note": COMMON_NOTE,
        "technique": TECH + "holder reference model + trylock interval rule + bounded-liveness oracle, spurious futex wake-ups and stalls injected",
    },
}
NA = {
    "C20": "pure functions of their input (config hash tables of a single caller, ABTU_ato*, affinity grammar, env clamping): no schedule, clock, fault or interleaving in the property, so deterministic simulation has nothing to decide (DESIGN.md 6/C20)",
}
