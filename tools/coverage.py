#!/usr/bin/env python3
"""Which lines of libabt do the simulated workloads reach?  ("Measure reach".)

  coverage.py [--runs N] [--budget S] [--props C01,C02,...] [--tier quick|thorough] [--keep]

Builds variant VG (libabt compiled with gcov counters, tools/build.py), runs every property's
workload for N seeds through bin/check (fault-free and fault-injecting runs as in the checks),
aggregates the counters over all translation units (most of the library lives in static
inline functions in headers, so a line counts as reached when any unit reached it) and writes
  evidence/coverage.json          per-file and per-function summary
  evidence/coverage_unreached.txt the instrumented lines no run reached, with their text
A line that no workload reaches is a line where no change can be noticed: the report is the
work list for new scenarios.  It is not a check and decides no property."""
import argparse, glob, gzip, json, os, re, subprocess, sys, time

VERIF = os.path.dirname(os.path.dirname(os.path.abspath(__file__)))
sys.path.insert(0, os.path.join(VERIF, "tools"))
import propcfg  # noqa: E402


def main():
    ap = argparse.ArgumentParser()
    ap.add_argument("--runs", type=int, default=4000)
    ap.add_argument("--budget", type=float, default=120)
    ap.add_argument("--props")
    ap.add_argument("--tier", default="quick")
    ap.add_argument("--repo", default="/repo")
    ap.add_argument("--keep", action="store_true", help="keep counters of an earlier invocation (accumulate)")
    ap.add_argument("--variants", default="VG", help="comma list of VG (default configuration), VG2 (futex emulation), VG3 (lazy stacks); a line counts as reached if any of them reached it")
    a = ap.parse_args()
    props = a.props.split(",") if a.props else sorted(propcfg.PROPS)
    t0 = time.time()
    ran = {}
    bdirs = []
    for variant in a.variants.split(","):
        exe = subprocess.check_output([sys.executable, os.path.join(VERIF, "tools", "build.py"), "--variant", variant, "--repo", a.repo, "--quiet"]).decode().strip()
        bdir = os.path.dirname(exe)
        bdirs.append(bdir)
        if not a.keep:
            for f in glob.glob(os.path.join(bdir, "*.gcda")):
                os.unlink(f)
        for p in props:
            cmd = [os.path.join(VERIF, "bin", "check"), p, "--variants", variant, "--runs", str(a.runs), "--budget", str(a.budget), "--no-evidence", "--tier", a.tier, "--repo", a.repo]
            r = subprocess.run(cmd, stdout=subprocess.PIPE, stderr=subprocess.STDOUT)
            m = re.search(r"(\d+) runs \((\d+) distinct", r.stdout.decode(errors="replace"))
            ran.setdefault(p, {})[variant] = {"runs": int(m.group(1)) if m else 0, "exit": r.returncode}
            sys.stderr.write("%s %s: %s\n" % (variant, p, ran[p][variant]))
    # aggregate
    lines = {}   # file -> {line: count}
    funcs = {}   # (file, name) -> [start, end, count]
    for bdir, g in [(b, g) for b in bdirs for g in sorted(glob.glob(os.path.join(b, "*.gcda")))]:
        out = subprocess.run(["gcov", "--json-format", "--stdout", "-o", bdir, g], stdout=subprocess.PIPE, stderr=subprocess.DEVNULL, cwd=bdir).stdout
        for doc in out.decode(errors="replace").splitlines():
            if not doc.startswith("{"):
                continue
            j = json.loads(doc)
            for f in j.get("files", []):
                fn = os.path.realpath(os.path.join(bdir, f["file"]))
                src = os.path.realpath(os.path.join(a.repo, "src"))
                binc = os.path.realpath(os.path.join(bdir, "include"))
                if fn.startswith(binc + "/"):
                    rel = "include/" + fn[len(binc) + 1:]  # variants with an edited abt_config.h compile a copy of the headers
                elif fn.startswith(src + "/"):
                    rel = fn[len(src) + 1:]
                else:
                    continue
                d = lines.setdefault(rel, {})
                for l in f["lines"]:
                    d[l["line_number"]] = d.get(l["line_number"], 0) + l["count"]
                for fu in f["functions"]:
                    k = (rel, fu["name"])
                    e = funcs.setdefault(k, [fu["start_line"], fu["end_line"], 0])
                    e[2] += fu["execution_count"]
    files = {}
    unreached = []
    tot = hit = 0
    for rel in sorted(lines):
        d = lines[rel]
        n = len(d)
        h = sum(1 for c in d.values() if c > 0)
        tot += n
        hit += h
        files[rel] = {"lines": n, "reached": h}
        try:
            text = open(os.path.join(a.repo, "src", rel), errors="replace").read().split("\n")
        except OSError:
            text = []
        for ln in sorted(d):
            if d[ln] == 0:
                fnm = ""
                for (r2, name), (s, e, c) in funcs.items():
                    if r2 == rel and s <= ln <= e:
                        fnm = name
                        break
                unreached.append("%s:%d: [%s] %s" % (rel, ln, fnm, text[ln - 1].strip() if ln - 1 < len(text) else ""))
    fl = [{"file": r, "function": n, "calls": c} for (r, n), (s, e, c) in sorted(funcs.items())]
    never = [f for f in fl if f["calls"] == 0]
    rep = {"tool": "tools/coverage.py", "variants": a.variants + " (gcc --coverage on libabt only)", "tier": a.tier, "runs_per_property": ran,
           "seconds": round(time.time() - t0, 1), "lines_instrumented": tot, "lines_reached": hit,
           "percent": round(100.0 * hit / max(1, tot), 1), "files": files,
           "functions_total": len(fl), "functions_never_called": never}
    os.makedirs(os.path.join(VERIF, "evidence"), exist_ok=True)
    json.dump(rep, open(os.path.join(VERIF, "evidence", "coverage.json"), "w"), indent=1)
    open(os.path.join(VERIF, "evidence", "coverage_unreached.txt"), "w").write("\n".join(unreached) + "\n")
    print("lines reached: %d of %d (%.1f%%); functions never called: %d of %d" % (hit, tot, rep["percent"], len(never), len(fl)))


if __name__ == "__main__":
    main()
