#!/bin/bash
# confirm_seeded.sh <worktree> <seeded-id> <property>
# Confirms an independently written breaking change in its scratch worktree (compiles, test
# suite passes, demonstration fails with the change and passes without it), stores it under
# /verif/seeded/<id>/, then applies it to /repo, runs the property's quick check, and undoes it.
wt=$1; id=$2; prop=$3
out=/verif/seeded/$id
mkdir -p $out
cd $wt || exit 2
log=$out/confirm.log; : > $log
echo "== build with change" >> $log
make -j8 >> $log 2>&1 || { echo "BUILD FAILED"; exit 1; }
echo "== test suite with change" >> $log
make -C test check -j8 > $out/testsuite.log 2>&1
pass=$(grep -E "^# PASS:" $out/testsuite.log | awk '{s+=$3} END{print s}')
fail=$(grep -E "^# (FAIL|ERROR):" $out/testsuite.log | awk '{s+=$3} END{print s}')
echo "testsuite: pass=$pass fail=$fail" | tee -a $log
rm -f $out/testsuite.log
echo "== demo with change" >> $log
( cd SEEDED && timeout 300 sh ./run_demo.sh ) >> $log 2>&1; rc_with=$?
# (no git stash: the stash is shared by all worktrees of a repository)
git diff -- src > $out/.current.diff
if ! diff -q $out/.current.diff SEEDED/patch.diff >/dev/null; then echo "note: worktree diff differs from SEEDED/patch.diff; using the worktree diff" | tee -a $log; cp $out/.current.diff SEEDED/patch.diff; fi
git apply -R $out/.current.diff
make -j8 >> $log 2>&1
echo "== demo without change" >> $log
( cd SEEDED && timeout 600 sh ./run_demo.sh ) >> $log 2>&1; rc_without=$?
git apply $out/.current.diff
rm -f $out/.current.diff
make -j8 >> $log 2>&1
echo "demo: with change rc=$rc_with, without change rc=$rc_without" | tee -a $log
cp SEEDED/patch.diff $out/patch.diff
cp SEEDED/demo.c SEEDED/run_demo.sh SEEDED/NOTES.md $out/ 2>/dev/null
for f in SEEDED/*; do case "$f" in *.c|*.sh|*.md|*.diff|*.h) cp "$f" $out/ ;; esac; done
confirmed=no
if [ "$pass" = "119" ] && [ "$fail" = "0" ] && [ $rc_with -ne 0 ] && [ $rc_without -eq 0 ]; then confirmed=yes; fi
echo "confirmed=$confirmed" | tee -a $log
# run our check against it
cd /repo || exit 2
if [ -n "$NO_CHECK" ]; then detected=not-run; rc=2; elif ! git apply --check $out/patch.diff 2>>$log; then echo "patch does not apply to /repo" | tee -a $log; detected=unknown; else
git apply $out/patch.diff
( cd /verif && bin/check $prop --no-evidence > $out/check_output.txt 2>&1 ); rc=$?
git checkout -- . 
echo "check exit=$rc" | tee -a $log
grep -E "^VIOLATION|class=" $out/check_output.txt | head -4 | cut -c1-300 | tee -a $log
detected=$([ $rc -eq 1 ] && echo yes || echo no)
fi
python3 - <<PY
import json
meta={"id":"$id","property":"$prop","confirmed_by_us":"$confirmed"=="yes","testsuite_with_change":{"pass":int("${pass:-0}" or 0),"fail":int("${fail:-0}" or 0)},
      "demo_exit_with_change":$rc_with,"demo_exit_without_change":$rc_without,
      "what_we_ran":"tools/confirm_seeded.sh: make && make -C test check in the scratch worktree with the change; SEEDED/run_demo.sh with the change and after git stash; then git apply to /repo, bin/check $prop (quick), git checkout",
      "detected_by_quick_check":"$detected","check_exit":${rc:-2}}
try:
    meta["needs_to_manifest"]=open("$out/NOTES.md").read()[:1500]
except Exception: pass
json.dump(meta,open("$out/meta.json","w"),indent=1)
PY
echo "stored in $out"
