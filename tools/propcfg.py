"""Per-property budgets and evidence metadata used by bin/check."""

def P(quick_runs, thorough_runs, level="exploration", quick_budget=40, thorough_budget=900, expect_reach=(), assumptions=(), thorough_variants=None):
    d = dict(quick_runs=quick_runs, thorough_runs=thorough_runs, level=level, quick_budget=quick_budget, thorough_budget=thorough_budget,
             expect_reach=list(expect_reach), assumptions=list(assumptions))
    if thorough_variants:
        d["thorough_variants"] = thorough_variants
    return d

PROPS = {
    "C06": P(160000, 3000000, expect_reach=["c06.gates_released_after_join_issued", "c06.main_scheds_replaced_by_units", "c06.pool_reuse_units_released_after_join", "c06.priv_pool_joins"],
             assumptions=["blocked units are released by an external thread only after the join/finalize that has to wait for them was issued; nobody pushes to a pool whose only stream is being joined", "scenario yield_to-race: as for C11"]),
    "C07": P(300000, 6000000, expect_reach=["pool.pop_gives_up_became_empty", "pool.removes_refused_unit_gone", "lin.decided", "pool.empty_pops", "pool.blocking_pop_got_unit", "pool.big_batches"],
             assumptions=["clients respect the producer/consumer counts of the access mode; ABT_pool_remove is issued for a unit whose push has returned: by the sole consumer (it must succeed), or racing with the other consumers' pops (it may be refused, and then the unit was not in the pool at the linearisation point)",
                          "histories <= 48 operations, search capped at 1e6 nodes (undecided histories are counted, never passed or failed)"]),
    "C08": P(160000, 3000000, expect_reach=["c08.lapping_entries", "c08.xbarrier_rounds_with_external_threads", "c08.waiters_cancelled_in_the_barrier"], assumptions=["ABT_barrier_reinit is called only while nobody waits (API precondition)"]),
    "C09": P(160000, 3000000, expect_reach=["c09.future_reset_rounds", "c09.future_resets_of_partly_filled", "c09.waits_blocked_before_set", "c09.tests_ready", "c09.tasklet_waits_refused", "c09.rearm_sets", "c09.rearm_waits_released_by_a_later_set", "c09.objects_freed_by_their_waiter"], assumptions=["scenario eventual: ABT_eventual_reset is called only at quiescent points (no waiter, no setter in flight); scenario eventual-rearm: the single setter resets right after its own set, while released waiters may still be on their way out"]),
    "C10": P(160000, 3000000, expect_reach=["c10.reads_sharing_the_lock", "c10.tasklet_calls_refused", "c10.lockers_of_a_joined_stream"], assumptions=["lockers unlock what they locked; finite programs (no reader stream that starves a writer for ever)"]),
    "C11": P(160000, 3000000, expect_reach=["c11.resumes", "c11.yield_to", "c11.suspend_to", "c11.resume_yield_to", "c11.resume_suspend_to", "c11.exit_to", "c11.resume_exit_to", "c11.create_to", "c11.revive_to", "c11.thread_yield_to", "c11.thread_yield_to_race_refused", "c11.switches_by_unnamed_proxy"],
             assumptions=["directed-switch targets satisfy the documented preconditions (popped from their pool / observed BLOCKED / TERMINATED); in the chain scenario ABT_thread_yield_to only with a pool served by the calling stream", "scenario yield_to-race goes beyond the documented precondition of ABT_thread_yield_to (target in its pool): other streams may pop the target meanwhile; it relies on the implementation's re-check under the pool lock, which refuses with an error"]),
    "C02": P(160000, 3000000, expect_reach=["c02.resumes", "c02.yield_to", "c02.suspend_to", "c02.resume_yield_to", "c02.exit_to", "c02.create_to", "c02.revive_to"],
             assumptions=["as C11; canaries cover rbx, rbp, r12-r15, MXCSR rounding/masks and the x87 control word"]),
    "C12": P(160000, 3000000, expect_reach=["cancel.at_pop", "c12.state_transitions_observed", "c12.cancel_before_start", "c12.revives", "c12.self_migration_requests", "mix.revives", "mix.cancels_before_start"],
             assumptions=["one driver per unit issues create/cancel/join/revive/free sequentially (cancel races with the target's execution, not with its own join); the cancel deadline is checked at ABT_thread_yield and at a suspend that is resumed through a pool, not for direct hand-over resumes"]),
    "C13": P(160000, 3000000, expect_reach=["migrate.at_pop", "migrate.request_handled", "c13.requests_via_xstream_or_sched", "c13.migrate_any_stream_checked", "c13.sequence_migrations", "c13.sequence_other_moves", "c13.requests_checked_must_be_honoured", "c13.requests_overlapping_scheduling_point", "c13.poolless_targets_refused", "c13.units_made_migratable_later"],
             assumptions=["per unit, requests come either from the unit itself or from one issuer, so accepted requests are totally ordered; a request overlapping a scheduling point may be honoured at that point or the next"]),
    "C14": P(160000, 3000000, expect_reach=["unit.tombstone_reused", "c14.translation_queries", "c14.units_created", "c14.handles_recycled", "c14.bulk_rounds"],
             assumptions=["unit handles are crafted integers that all hash to one bucket of the 256-entry table, recycled LIFO in half of the runs; translations are queried only for units that cannot move or be freed meanwhile (the caller's own unit, or a suspended ULT)"]),
    "C15": P(160000, 3000000, expect_reach=["mempool.new_page", "mempool.bucket_from_global_lifo", "c15.mempool_allocs", "c15.mempool_cross_thread_frees", "c15.ext_frees_of_user_stack_ults", "c15.churn_units", "c15.churn_rounds_finished_on_another_stream", "c15.cancel_requests_to_queued_unnamed_units", "c15.attribute_objects_reused"],
             assumptions=["the white-box driver uses ABTI_mem_pool_* exactly as abti_mem.h does (one local pool per simulated thread, blocks may be freed to any local pool of the same global pool)",
                          "stack sizes 16 KiB..2 MiB (+50%) in the quick tier, up to 16 MiB in the thorough tier; with stack guards enabled the two lowest pages are not written"]),
    "C16": P(160000, 3000000, expect_reach=["key.chain_append", "key.table_creation_race_lost", "c16.remote_sets_while_owner_runs", "c16.destructor_calls", "c16.revives", "c16.keys_replaced_while_values_live", "c16.runs_with_high_key_ids"],
             assumptions=["every (unit,key) pair has a single writer (the owner or one remote setter), so the expected value is unique; ABT_KEY_TABLE_SIZE is randomised in {1,...,64}", "a revived unit is the same work unit: its values survive ABT_thread_revive / ABT_task_revive and are destroyed at the free"]),
    "C17": P(160000, 3000000, expect_reach=["c17.lin_decided", "c17.streams_freed_while_running_a_unit"],
             assumptions=["each stream is freed / re-ranked only by the actor that created it; ABT_xstream_set_main_sched is applied to a joined stream or to the caller's own stream",
                          "rank histories <= 24 operations, search capped at 2e6 nodes"]),
    "C18": P(16000, 300000, level="fault_enumeration", expect_reach=["c18.calls_failed_cleanly", "c18.routines_fully_enumerated", "c18.create_unit_failures", "c18.migration_handler_declined", "c18.migration_handler_moves", "c18.keytable_race_failures"],
             assumptions=["the failing allocation is one issued by the calling thread inside the routine under test (allocations made by a newly started stream on its own thread are not failed)",
                          "a call may succeed despite the injected failure when a documented fall-back exists (other large-page type, non-strict stack guard); it must then be complete"]),
    "C19": P(160000, 3000000, expect_reach=["waitlist.timeout_unlink_head", "waitlist.timeout_unlink_middle", "waitlist.timeout_unlink_tail", "waitlist.deadline_passed_but_signalled", "c19.timeouts", "c19.signal_with_certain_waiter", "pool.far_waits_that_got_a_unit", "pool.empty_blocking_pops_checked"],
             assumptions=["deadlines are relative to the run's virtual time scale; TIMEDOUT is checked against the virtual clock, never against elapsed steps"]),
    "C01": P(140000, 3000000, expect_reach=["sched.stacked_scheduler_stops", "c01.stacked_sched_finish_requests", "c01.late_cancels_before_revive"], assumptions=["units that create other units finish before streams are joined (a creation racing with the join of the only stream serving the target pool is the program's error)"]),
    "C03": P(160000, 3000000, expect_reach=["join.suspend_join", "join.exiting_ult_waits_for_p_link", "join.yield_loop_for_tasklet", "join.futex_wait", "join.fallback_yield_loop_target_terminating", "c03.revived_targets_joined_again"], assumptions=["one joiner per target (API contract); a tasklet joiner only joins targets served by other streams; unbounded yield loops are kept where the strict pool priority of the predefined schedulers cannot starve the awaited unit"]),
    "C05": P(160000, 3000000, expect_reach=["c05.signal_with_certain_waiter", "c05.broadcast_with_certain_waiters"],
             assumptions=["waiters and in-mutex signallers follow the monitor discipline; no oracle encodes timing"]),
    "C04": P(160000, 3000000, expect_reach=["c04.trylock_fail", "c04.contended_invocations"],
             assumptions=["generated programs nest lock/unlock properly; tasklets and ULTs never spin or block their stream on a holder that may sit in that stream's pool"]),
}
