"""Per-property budgets and evidence metadata used by bin/check."""

def P(quick_runs, thorough_runs, level="exploration", quick_budget=40, thorough_budget=900, expect_reach=(), assumptions=(), thorough_variants=None):
    d = dict(quick_runs=quick_runs, thorough_runs=thorough_runs, level=level, quick_budget=quick_budget, thorough_budget=thorough_budget,
             expect_reach=list(expect_reach), assumptions=list(assumptions))
    if thorough_variants:
        d["thorough_variants"] = thorough_variants
    return d

PROPS = {
    "C04": P(60000, 1500000, expect_reach=["c04.trylock_fail", "c04.contended_invocations"],
             assumptions=["generated programs nest lock/unlock properly; tasklets and ULTs never spin or block their stream on a holder that may sit in that stream's pool"]),
}
