#!/usr/bin/env python3
"""Regenerate /verif/MANIFEST.json from tools/propcfg.py and tools/manifest_text.py."""
import json, os, subprocess, sys
VERIF = os.path.dirname(os.path.dirname(os.path.abspath(__file__)))
sys.path.insert(0, os.path.join(VERIF, "tools"))
import propcfg, manifest_text

ALL = ["C%02d" % i for i in range(1, 21)]
hooks = subprocess.run(["git", "-C", "/repo", "log", "--format=%H %s", "--grep=^verif hooks"], stdout=subprocess.PIPE).stdout.decode().strip().split("\n")
hook_commits = [h.split()[0] for h in hooks if h]
m = {
    "version": 1,
    "setup_cmd": "python3 tools/build.py --variant V0 --quiet && python3 tools/build.py --variant VP --quiet && python3 tools/build.py --variant V3 --quiet",
    "hooks": {
        "guard": "ABT_VERIF_SIM",
        "enable": "tools/build.py compiles /repo/src (list from src/Makefile.am) with -DABT_VERIF_SIM and redirects libc/pthread/futex/clock/allocator symbols of the libabt objects with objcopy --redefine-syms=tools/redef.txt; nothing is built inside /repo",
        "baseline_off_cmd": "make -C /repo -j16 && make -C /repo/test check -j8",
        "source_commits": hook_commits,
        "add_only": True,
    },
    "engines": [{
        "name": "abtsim",
        "path": "sim/",
        "serves_properties": sorted(propcfg.PROPS),
        "kind_free_text": "deterministic simulator: whole libabt in one OS thread, ESs/external threads as coroutines, seeded scheduler (random walk, PCT, stall-after-publish, targeted delay, slow node, RR), virtual clock, simulated pthread/futex, allocation ledger + fault injection, fork-per-run, trace record/replay/minimisation",
    }],
    "checks": [],
    "not_applicable": [],
    "notes": "All checks are seeded searches over schedules, generated programs, configurations and fault sequences run by the deterministic simulator in sim/ (DESIGN.md). VERIF_SEED selects the seed block. Exit 2 = infrastructure problem (never a verdict).",
}
for p in ALL:
    if p in propcfg.PROPS:
        t = manifest_text.TEXT[p]
        cfg = propcfg.PROPS[p]
        m["checks"].append({
            "property_id": p,
            "quick_cmd": "bin/check %s --tier quick" % p,
            "thorough_cmd": "bin/check %s --tier thorough" % p,
            "evidence_file": "evidence/%s.json" % p,
            "replay_cmd_template": "bin/check --replay {path}",
            "engine": "abtsim",
            "level_claimed": {"category": cfg.get("level", "exploration"), "text": t["level_text"], "design_ref": t.get("design_ref", "DESIGN.md section 6 " + p)},
            "level_note": t["level_note"],
            "technique": t["technique"],
        })
    else:
        m["not_applicable"].append({"property_id": p, "reason": manifest_text.NA.get(p, "check not built yet (work in progress; see DESIGN.md section 6 for the planned design)")})
json.dump(m, open(os.path.join(VERIF, "MANIFEST.json"), "w"), indent=1)
print("MANIFEST.json: %d checks, %d not claimed" % (len(m["checks"]), len(m["not_applicable"])))
