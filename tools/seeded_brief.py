#!/usr/bin/env python3
"""seeded_brief.py <round-dir> [<prop> ...]: writes BRIEF.md into each scratch worktree
<round-dir>/<prop>.  The brief holds the text of the property, the working rules and the list of
functions earlier testers already changed for that property (taken from the hunk headers of
seeded/*/patch.diff: information about other testers' changes, nothing about the checks)."""
import sys, json, glob, re, os, collections

VERIF = os.path.dirname(os.path.dirname(os.path.abspath(__file__)))
HINTS = [
    "it needs a rarely used configuration, environment setting or API combination",
    "it needs a narrow interleaving between two execution streams (or a stream and an external thread)",
    "it sits on an error path, a boundary value or a resource-exhaustion path",
    "it needs a seldom used routine, object kind or caller kind (tasklet, external thread, primary ULT, user-defined pool/scheduler)",
    "it needs a multi-step history (create/use/free/reuse, join/revive, reset/reuse) before anything goes wrong",
    "it consists of two cooperating edits in different functions, each of which looks fine alone",
]


def touched():
    d = collections.defaultdict(set)
    for f in sorted(glob.glob(os.path.join(VERIF, "seeded/*/patch.diff"))):
        try:
            prop = json.load(open(f.replace("patch.diff", "meta.json")))["property"]
        except Exception:
            continue
        cur = None
        for l in open(f, errors="replace"):
            if l.startswith("+++ "):
                cur = l.split()[1].replace("b/", "", 1)
            m = re.match(r"@@.*@@\s*(.*)", l)
            if m and m.group(1):
                fn = re.search(r"(\w+)\s*\(", m.group(1))
                d[prop].add("%s: %s" % (cur, fn.group(1) if fn else m.group(1)[:50]))
    return d


SIBLINGS = {"C01": ["C06", "C12", "C11", "C17", "C03"], "C02": ["C11", "C15"], "C03": ["C12", "C01"], "C04": ["C05", "C10", "C08", "C01", "C19"], "C05": ["C19", "C04", "C10", "C08", "C09"],
            "C06": ["C01", "C11", "C10"], "C07": ["C19", "C14"], "C08": ["C05", "C04", "C09"], "C09": ["C08", "C05"], "C10": ["C04", "C05", "C06", "C08", "C19", "C09"],
            "C11": ["C02", "C06", "C13", "C01"], "C12": ["C01", "C03", "C18", "C02", "C11"], "C13": ["C11", "C14", "C18"], "C14": ["C13", "C18", "C07"], "C15": ["C02", "C18", "C16", "C12"],
            "C16": ["C18", "C15", "C12"], "C17": ["C06", "C01", "C18"], "C18": ["C14", "C12", "C16"], "C19": ["C05", "C07", "C08"]}


def slugs():
    d = collections.defaultdict(list)
    for f in sorted(glob.glob(os.path.join(VERIF, "seeded/*/meta.json"))):
        try:
            m = json.load(open(f))
        except Exception:
            continue
        files = set()
        try:
            for l in open(f.replace("meta.json", "patch.diff"), errors="replace"):
                if l.startswith("+++ "):
                    files.add(l.split()[1].replace("b/", "", 1))
        except Exception:
            pass
        d[m["property"]].append("%s (%s)" % (m["id"].split("-", 1)[1].replace("-", " "), ", ".join(sorted(files))))
    return d


def main():
    rd = sys.argv[1]
    rnd = int(sys.argv[2])
    props = sys.argv[3:]
    T = touched()
    P = {}
    for l in open(os.path.join(VERIF, "properties.jsonl")):
        p = json.loads(l)
        P[p["id"]] = p
    for i, pid in enumerate(props):
        p = P[pid]
        wt = os.path.join(rd, pid)
        hint = HINTS[(i + rnd) % len(HINTS)]
        txt = []
        txt.append("# Task: write a hard-to-notice breaking change for one property of Argobots\n")
        txt.append("You are a tester of a verification effort. Your working copy of the Argobots library (pmodels/argobots, C, autotools) is the git worktree\n`%s` -- already configured and built (`make -j8` rebuilds, `make -C test check -j8` runs the 119-test suite, a few minutes).\nWork ONLY inside that directory. Never touch `/repo` or `/verif` (do not read them either), never `git commit`, never use `git stash`\n(the stash is shared between worktrees), never push anything.\n" % wt)
        txt.append("## The property\n")
        txt.append("**%s -- %s**\n" % (p["id"], p["title"]))
        txt.append("Statement: %s\n" % p["statement"])
        txt.append("Quantifier: %s\n" % p["quantifier"]["text"])
        txt.append("Why the existing tests cannot settle it: %s\n" % p["why_tests_cant"])
        txt.append("Anchors (where the property lives in the code):\n```json\n%s\n```\n" % json.dumps(p["anchors"], indent=1))
        for k in p:
            if k not in ("id", "title", "statement", "quantifier", "why_tests_cant", "anchors"):
                txt.append("%s: %s\n" % (k, json.dumps(p[k]) if not isinstance(p[k], str) else p[k]))
        txt.append("## What to deliver\n")
        txt.append("""A change to the library sources under `src/` (one to three small edits, the kind of slip or "clean-up" a maintainer could plausibly make)
such that

1. the library still compiles without new warnings and **all 119 tests of `make -C test check` still pass** (run them, with the change);
2. the property above is broken -- but only when something specific happens: a particular interleaving, a fault or error at a
   particular point, a multi-step sequence of operations, an unusual input or configuration, or two cooperating sites that each look
   fine alone. A change that ordinary use would expose at once is not wanted. For this task in particular: **%s**;
3. you can demonstrate it: a small public-API C program (or a few) that fails (non-zero exit, crash, hang caught by a timeout, wrong
   output) with your change and passes without it. If the failure needs a rare interleaving you may force it in the demonstration
   (sleeps, many iterations, spin-waits on public state, environment variables), or, if it cannot be forced from outside, explain
   precisely which schedule is needed and demonstrate the closest observable symptom.

Put everything into a new directory `%s/SEEDED/`:

* `patch.diff`   -- output of `git diff -- src` (only your change to `src/`);
* `demo.c` (more files if needed) and `run_demo.sh` -- `sh run_demo.sh` (run from inside `SEEDED/`) compiles the demonstration against
  the worktree's current build (`-I../src/include ../src/.libs/libabt.a -lpthread -lm` or the shared library with an rpath/LD_LIBRARY_PATH)
  and runs it under `timeout`; it must exit non-zero when the property is violated and 0 otherwise; it must not take longer than 3 minutes;
* `NOTES.md`     -- the change, which part of the property it breaks and why, what exactly is needed for it to manifest, why the test
  suite does not notice, and what you ran (including the test-suite totals with the change, and the demo result with and without it).

Check the "without" case by reverting with `git apply -R SEEDED/patch.diff`, rebuilding, running the demo, and re-applying with
`git apply SEEDED/patch.diff` + rebuild. Leave the worktree WITH the change applied and built when you finish.
""" % (hint, wt))
        if T.get(pid):
            txt.append("## Already used by earlier testers for this property -- pick something else\n")
            txt.append("Earlier testers changed these functions for this property; a change in the same function with the same effect is worthless, "
                       "so choose a different mechanism (a different function, object kind, path or configuration):\n\n")
            for t in sorted(T[pid]):
                txt.append("* `%s`\n" % t)
        SL = slugs()
        rel = [pid] + SIBLINGS.get(pid, [])
        txt.append("\nOne-line summaries of all earlier changes for this property and for the neighbouring properties that share its code (do not repeat any of them, "
                   "not even with a different edit that has the same effect):\n\n")
        for q in rel:
            for sl in SL.get(q, []):
                txt.append("* %s: %s\n" % (q, sl))
        txt.append("\nFinish by replying with: the one-paragraph description of the change, the test-suite totals, and the demo exit codes with and without the change.\n")
        open(os.path.join(wt, "BRIEF.md"), "w").write("\n".join(txt))
        print("wrote", os.path.join(wt, "BRIEF.md"))


if __name__ == "__main__":
    main()
