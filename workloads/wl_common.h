/* helpers shared by workloads */
#ifndef WL_COMMON_H
#define WL_COMMON_H
#include <abt.h>
#include <stdio.h>
#include <stdlib.h>
#include <string.h>
#include "abtsim.h"

#define ABT_OK(call)                                                           \
    do {                                                                       \
        int r_ = (call);                                                       \
        if (r_ != ABT_SUCCESS)                                                 \
            sim_fail("api-error", "%s returned %d at %s:%d", #call, r_,        \
                     __FILE__, __LINE__);                                      \
    } while (0)

/* ABT_mutex_memory & co. are structs of ints (4-byte aligned), but the library overlays
 * structures with pointers on them: a file-scope object is 16-byte aligned by the ABI, a member
 * of a struct is not.  Members are placed the way a file-scope object would be (UBSan in the VS
 * variant reports the misaligned member access otherwise; it is harmless on x86-64 and outside
 * the listed properties). */
#define WL_ALIGNED_MEMORY __attribute__((aligned(16)))

#define WL_MAX_ES 6
#define WL_MAX_POOLS 16

typedef struct wl_rt {
    int nes;
    ABT_xstream xs[WL_MAX_ES];
    int sched_kind[WL_MAX_ES]; /* index into wl_sched_names; -1: default main sched */
    int npools;                /* pools units may be pushed to */
    ABT_pool pools[WL_MAX_POOLS];
    int pool_es[WL_MAX_POOLS]; /* index of the only ES serving it, or -1 if shared */
    int pool_kind[WL_MAX_POOLS];
    int topo;
    int es_first_pool[WL_MAX_ES]; /* index in pools[] of the first pool of each ES's main scheduler */
    int joined[WL_MAX_ES];
} wl_rt;

/* option flags for wl_rt_start */
#define WL_RT_NEED_SHARED 1  /* at least one pool served by >= 2 ESs when nes >= 2 */
#define WL_RT_NO_WAIT_SCHED 2
#define WL_RT_FIFO_ONLY 4
#define WL_RT_MIN2ES 8
#define WL_RT_PRIVATE_ONLY 16 /* every pool served by exactly one ES */
#define WL_RT_BASIC_ONLY 32   /* BASIC schedulers only */
#define WL_RT_BUILTIN_POOLS 128 /* no user-defined pools (the workload looks into built-in pool internals) */
#define WL_RT_PREDEF_SCHEDS 256 /* no user-defined scheduler */
#define WL_RT_NO_TOPO2 64     /* no stream other than the primary has two pools (unbounded yield loops cannot starve a lower-priority pool) */

extern const char *wl_sched_names[];
extern const char *wl_pool_names[];

void wl_env_swarm(void);
void wl_rt_start(wl_rt *rt, int flags);
void wl_rt_stop(wl_rt *rt); /* joins+frees secondary ESs, ABT_finalize, ledger check */
ABT_pool wl_any_pool(wl_rt *rt);
/* debugging aid for replays: WL_DEBUG=1 in the environment prints workload-level events */
extern int wl_debug;
#define WL_DBG(...)                                                            \
    do {                                                                       \
        if (wl_debug)                                                          \
            fprintf(stderr, __VA_ARGS__);                                      \
    } while (0)
int wl_pool_is_user(ABT_pool pool);
ABT_sched wl_make_user_sched(int n, ABT_pool *pools);
ABT_sched wl_make_user_sched_coop(int n, ABT_pool *pools); /* yields to its own scheduler when it finds nothing (for stacked use) */
/* a pool made from the legacy ABT_pool_def (has is_in_pool/remove); for workloads that set up
 * their own runtime: call wl_user_pools_reset() first and wl_user_pools_check() after ABT_finalize */
ABT_pool wl_make_legacy_pool(int failing_remove);
void wl_user_pools_reset(void);
void wl_user_pools_check(void);
int wl_thread_is_in_pool(ABT_thread th);

/* spin until *flag != 0 from a non-ULT context (external thread) */
void wl_spin_until(volatile int *flag);
/* wait for a flag inside a ULT: yields */
void wl_ult_wait(volatile int *flag);

/* virtual-time absolute timespec "now + ns" */
struct timespec wl_abstime(uint64_t ns_from_now);


/* ---- actors: callers of a given kind running a body concurrently ---- */
enum { AK_ULT = 0, AK_TASKLET, AK_EXT };
typedef struct wl_actor {
    int id, kind, pool;
    void (*body)(struct wl_actor *);
    void *ctx;
    ABT_thread th;
    int simtid;
    volatile int done;
    volatile int cur_op; /* for diagnostics */
    int cancelled_ok;    /* the workload cancels this actor: its body need not finish */
    int nops;
    int ops[16];
    int args[16];
} wl_actor;
extern const char *wl_actor_kind_names[];
/* scheduling point inside an actor; ULTs really yield when ult_yield is set */
void wl_actor_pause(wl_actor *a, int ult_yield);
void wl_actors_spawn(wl_rt *rt, wl_actor *a, int n);
void wl_actors_join(wl_rt *rt, wl_actor *a, int n);
/* describe actor progress (diagnostics) */
int wl_actors_diag(wl_actor *a, int n, char *buf, int sz);

#endif
