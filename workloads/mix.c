/* "mix": one generated program that combines features which the per-property workloads
 * exercise separately -- creation from ULTs, join/free, cancellation, revive, work-unit-local
 * storage with destructors, migration, suspend/resume by an external thread, mutexes,
 * eventuals -- over the shared topologies (built-in and user-defined pools and schedulers).
 * Its oracles are generic: every incarnation of every unit runs exactly once (or is cut
 * short by its cancellation, never run twice), a unit's keys hold what the unit stored, each
 * stored value is destroyed exactly once when its unit is freed (not earlier, e.g. at a
 * revive), the mutex excludes, nothing hangs, nothing is left at the end, and the monitors
 * (context ownership, stream-local memory pools, allocation ledger) stay quiet.
 * Registered for C01 (exactly once), C12 (lifecycle), C16 (keys). */
#include "wl_common.h"

#define MX_MAXU 6
#define MX_MAXOPS 14
#define MX_KEYS 6
#define MX_VALS 512
#define MX_HOLDERS 128
enum { O_YIELD = 0, O_LOCK, O_KSET, O_KGET, O_SPAWN, O_REAP, O_CANCEL, O_MIGRATE, O_SUSPEND, O_SETSPEC, O_N };
enum { F_PLAIN = 0, F_YIELDER, F_KEYS, F_EVSET, F_N };

typedef struct mval {
    int owner; /* index into M.K */
    int key, dtor;
} mval;
/* a key-holder: a top-level unit or a child */
typedef struct holder {
    mval *last[MX_KEYS];
    int freed;
} holder;
typedef struct child {
    int used, is_task, flavor, cancelled, revived, pool;
    ABT_thread th;
    volatile int starts, completions; /* of the current incarnation */
    ABT_eventual ev;
    int kh; /* key-holder index */
} child;
typedef struct munit {
    int id, nops, ops[MX_MAXOPS], arg[MX_MAXOPS];
    ABT_thread th, self; /* self: stored by the unit (the creator may not have its handle yet) */
    volatile int starts, done;
    volatile int want_resume; /* incremented before each suspend */
    volatile int resumed;
    child c[2];
    int kh;
    int exit_at_end;
} munit;

static struct {
    wl_rt rt;
    int n;
    munit U[MX_MAXU];
    ABT_key keys[MX_KEYS];
    mval V[MX_VALS];
    int nv;
    holder K[MX_HOLDERS];
    int nk;
    ABT_mutex mtx;
    volatile int in_cs;
    long cs_count;
    volatile int stop_resumer, resumer_done;
    long cancels_before_start, cancels_cut_short, revives, migrations, suspends;
} M;

static void mx_dtor(void *p)
{
    mval *v = (mval *)p;
    SIM_CHECK(v >= M.V && v < M.V + MX_VALS, "key:destructor-arg", "destructor received a pointer that was never stored");
    v->dtor++;
    SIM_CHECK(v->dtor == 1, "key:destructor-twice", "destructor ran %d times for one stored value", v->dtor);
    SIM_CHECK(M.K[v->owner].freed, "key:destructor-early", "destructor ran for a value of a unit that has not been freed");
    SIM_CHECK(M.K[v->owner].last[v->key] == v, "key:destructor-stale", "destructor ran for a value that had been overwritten");
}
static mval *mx_newval(int kh, int key)
{
    if (M.nv >= MX_VALS)
        return NULL;
    mval *v = &M.V[M.nv++];
    v->owner = kh;
    v->key = key;
    v->dtor = 0;
    return v;
}
static void mx_kset(int kh, int key)
{
    mval *v = mx_newval(kh, key);
    ABT_OK(ABT_key_set(M.keys[key], v));
    M.K[kh].last[key] = v;
}
static void mx_kget(int kh, int key, const char *who)
{
    void *got = (void *)1;
    ABT_OK(ABT_key_get(M.keys[key], &got));
    SIM_CHECK(got == (void *)M.K[kh].last[key], "key:wrong-value", "%s: key %d holds %p, the last value stored is %p", who, key, got, (void *)M.K[kh].last[key]);
}
static void mx_check_dtors(int kh, const char *who)
{
    for (int k = 0; k < MX_KEYS; k++)
        if (M.K[kh].last[k])
            SIM_CHECK(M.K[kh].last[k]->dtor == 1, "key:destructor-missing", "%s: the value stored under key %d was not destroyed when the unit was freed", who, k);
}

/* ---- children ---- */
static void child_body(child *c, int second)
{
    c->starts++;
    SIM_CHECK(c->starts == 1, "once:started-twice", "an incarnation of a child unit started %d times", c->starts);
    switch (c->flavor) {
        case F_YIELDER:
            if (!c->is_task) {
                ABT_OK(ABT_thread_yield());
                ABT_OK(ABT_thread_yield());
            }
            break;
        case F_KEYS:
            for (int k = 0; k < MX_KEYS; k += 2) {
                if (second)
                    mx_kget(c->kh, k, "revived child"); /* it is the same work unit */
                mx_kset(c->kh, k);
                mx_kget(c->kh, k, "child");
            }
            break;
        case F_EVSET:
            if (!second)
                ABT_OK(ABT_eventual_set(c->ev, NULL, 0));
            break;
    }
    c->completions++;
    sim_progress();
}
static void child_fn(void *arg)
{
    child_body((child *)arg, 0);
}
static void child_fn2(void *arg)
{
    child_body((child *)arg, 1);
}

static void reap(munit *u, child *c)
{
    if (c->flavor == F_EVSET && !c->cancelled)
        ABT_OK(ABT_eventual_wait(c->ev, NULL));
    ABT_OK(ABT_thread_join(c->th));
    ABT_thread_state st;
    ABT_OK(ABT_thread_get_state(c->th, &st));
    SIM_CHECK(st == ABT_THREAD_STATE_TERMINATED, "join:state-not-terminated", "child of unit %d: state %d after join", u->id, (int)st);
    if (c->cancelled) {
        SIM_CHECK(c->starts <= 1 && c->completions <= c->starts, "once:started-twice", "cancelled child of unit %d: starts=%d completions=%d", u->id, c->starts, c->completions);
        if (c->starts == 0)
            M.cancels_before_start++;
        else if (c->completions == 0)
            M.cancels_cut_short++;
    } else
        SIM_CHECK(c->starts == 1 && c->completions == 1, "once:not-exactly-once", "child of unit %d has starts=%d completions=%d when its join returned", u->id, c->starts,
                  c->completions);
    if (c->revived == 1) {
        /* one more life, never cancelled, whatever happened to the first one */
        c->revived = 2;
        c->starts = c->completions = 0;
        c->cancelled = 0;
        ABT_pool p = M.rt.pools[c->pool];
        if (c->is_task)
            ABT_OK(ABT_task_revive(p, child_fn2, c, &c->th));
        else
            ABT_OK(ABT_thread_revive(p, child_fn2, c, &c->th));
        M.revives++;
        ABT_OK(ABT_thread_join(c->th));
        SIM_CHECK(c->starts == 1 && c->completions == 1, "once:not-exactly-once", "revived child of unit %d has starts=%d completions=%d when its join returned", u->id,
                  c->starts, c->completions);
    }
    M.K[c->kh].freed = 1;
    ABT_OK(ABT_thread_free(&c->th));
    mx_check_dtors(c->kh, "child");
    if (c->flavor == F_EVSET)
        ABT_OK(ABT_eventual_free(&c->ev));
    c->used = 0;
}

/* ---- top-level units ---- */
static void unit_fn(void *arg)
{
    munit *u = (munit *)arg;
    u->starts++;
    SIM_CHECK(u->starts == 1, "once:started-twice", "unit %d started %d times", u->id, u->starts);
    ABT_thread self;
    ABT_OK(ABT_self_get_thread(&self));
    u->self = self;
    for (int i = 0; i < u->nops; i++) {
        int a = u->arg[i];
        child *c = &u->c[a & 1];
        switch (u->ops[i]) {
            case O_YIELD:
                ABT_OK(ABT_thread_yield());
                break;
            case O_LOCK:
                ABT_OK(ABT_mutex_lock(M.mtx));
                M.in_cs++;
                SIM_CHECK(M.in_cs == 1, "mutex:two-holders", "two units are inside the critical section");
                if (a & 2)
                    ABT_OK(ABT_thread_yield());
                M.cs_count++;
                M.in_cs--;
                ABT_OK(ABT_mutex_unlock(M.mtx));
                break;
            case O_KSET:
                mx_kset(u->kh, a % MX_KEYS);
                break;
            case O_KGET:
                mx_kget(u->kh, a % MX_KEYS, "unit");
                break;
            case O_SPAWN:
                if (c->used || M.nk >= MX_HOLDERS)
                    break;
                memset(c, 0, sizeof *c);
                c->used = 1;
                c->is_task = (a >> 1) & 1;
                c->flavor = (a >> 2) % F_N;
                c->revived = (a >> 4) & 1;
                c->pool = (a >> 5) % M.rt.npools;
                c->kh = M.nk++;
                if (c->flavor == F_EVSET)
                    ABT_OK(ABT_eventual_create(0, &c->ev));
                if (c->is_task)
                    ABT_OK(ABT_task_create(M.rt.pools[c->pool], child_fn, c, &c->th));
                else
                    ABT_OK(ABT_thread_create(M.rt.pools[c->pool], child_fn, c, ABT_THREAD_ATTR_NULL, &c->th));
                break;
            case O_CANCEL:
                /* (an eventual setter that is cancelled may never set: not cancelled) */
                if (c->used && !c->cancelled && c->flavor != F_EVSET) {
                    c->cancelled = 1;
                    if (c->is_task && (a & 8))
                        ABT_OK(ABT_task_cancel(c->th));
                    else
                        ABT_OK(ABT_thread_cancel(c->th));
                }
                break;
            case O_SETSPEC:
                if (c->used && c->flavor != F_KEYS) {
                    /* a key of the child the child itself never touches (odd keys) */
                    int k = 1 + 2 * (a % (MX_KEYS / 2));
                    mval *v = mx_newval(c->kh, k);
                    ABT_OK(ABT_thread_set_specific(c->th, M.keys[k], v));
                    M.K[c->kh].last[k] = v;
                }
                break;
            case O_REAP:
                if (c->used)
                    reap(u, c);
                break;
            case O_MIGRATE: {
                int p = a % M.rt.npools;
                int rc = ABT_thread_migrate_to_pool(self, M.rt.pools[p]);
                if (rc == ABT_SUCCESS)
                    M.migrations++;
                else
                    SIM_CHECK(rc == ABT_ERR_MIGRATION_TARGET, "migrate:error-code", "ABT_thread_migrate_to_pool returned %d", rc);
                break;
            }
            case O_SUSPEND:
                u->want_resume++;
                M.suspends++;
                ABT_OK(ABT_self_suspend());
                SIM_CHECK(u->resumed == u->want_resume, "suspend:ran-without-resume", "unit %d runs after suspension #%d although %d resumes were issued", u->id, u->want_resume,
                          u->resumed);
                break;
        }
        sim_progress();
    }
    /* children still around are collected before the unit ends */
    for (int k = 0; k < 2; k++)
        if (u->c[k].used)
            reap(u, &u->c[k]);
    for (int k = 0; k < MX_KEYS; k++)
        mx_kget(u->kh, k, "unit (at its end)");
    u->done = 1;
    sim_progress();
    if (u->exit_at_end)
        ABT_OK(ABT_self_exit());
}

/* resumes suspended units as soon as they are observed BLOCKED */
static void resumer_main(void *arg)
{
    (void)arg;
    while (!M.stop_resumer) {
        for (int i = 0; i < M.n; i++) {
            munit *u = &M.U[i];
            if (u->resumed < u->want_resume) {
                ABT_thread_state st;
                ABT_OK(ABT_thread_get_state(u->self, &st));
                if (st == ABT_THREAD_STATE_BLOCKED) {
                    u->resumed++;
                    ABT_OK(ABT_thread_resume(u->self));
                    sim_progress();
                }
            }
        }
        sim_yield();
    }
    M.resumer_done = 1;
}

static void mx_diag(char *buf, int sz)
{
    int k = 0;
    for (int i = 0; i < M.n && k < sz - 40; i++)
        k += snprintf(buf + k, (size_t)(sz - k), "u%d:s%d/d%d/w%d/r%d ", i, M.U[i].starts, M.U[i].done, M.U[i].want_resume, M.U[i].resumed);
}

static void run_mix(void)
{
    memset(&M, 0, sizeof M);
    sim_set_diag_cb(mx_diag);
    wl_rt *rt = &M.rt;
    /* (a ULT that joins a tasklet waits in a yield loop: no topology in which a perpetual
     * yielder can starve a lower-priority pool) */
    wl_rt_start(rt, WL_RT_NO_TOPO2);
    for (int k = 0; k < MX_KEYS; k++)
        ABT_OK(ABT_key_create(mx_dtor, &M.keys[k]));
    ABT_OK(ABT_mutex_create(&M.mtx));
    M.n = plan_range(1, sim_limit("units", MX_MAXU));
    sim_note("mix units=%d: ", M.n);
    /* a run favours a few kinds of operation (swarm) */
    int fav[3] = { (int)plan_n(O_N), (int)plan_n(O_N), (int)plan_n(O_N) };
    for (int i = 0; i < M.n; i++) {
        munit *u = &M.U[i];
        u->id = i;
        u->kh = M.nk++;
        u->nops = plan_range(1, sim_limit("ops", MX_MAXOPS));
        u->exit_at_end = plan_n(4) == 0;
        for (int j = 0; j < u->nops; j++) {
            u->ops[j] = plan_bool() ? fav[plan_n(3)] : (int)plan_n(O_N);
            u->arg[j] = (int)plan_n(1 << 12);
        }
    }
    int rtid = sim_thread_create(resumer_main, NULL);
    for (int i = 0; i < M.n; i++)
        ABT_OK(ABT_thread_create(rt->pools[plan_n((uint32_t)rt->npools)], unit_fn, &M.U[i], ABT_THREAD_ATTR_NULL, &M.U[i].th));
    for (int i = 0; i < M.n; i++) {
        munit *u = &M.U[i];
        ABT_OK(ABT_thread_join(u->th));
        SIM_CHECK(u->starts == 1 && u->done == 1, "once:not-exactly-once", "unit %d has starts=%d done=%d when its join returned", i, u->starts, u->done);
        for (int v = 0; v < M.nv; v++)
            if (M.V[v].owner == u->kh)
                SIM_CHECK(M.V[v].dtor == 0, "key:destructor-early", "a value of unit %d was destroyed before the unit was freed", i);
        M.K[u->kh].freed = 1;
        ABT_OK(ABT_thread_free(&u->th));
        mx_check_dtors(u->kh, "unit");
        sim_progress();
    }
    M.stop_resumer = 1;
    while (!M.resumer_done)
        ABT_OK(ABT_thread_yield());
    sim_thread_join(rtid);
    /* overwritten values are never destroyed; stored ones exactly once (checked above) */
    for (int v = 0; v < M.nv; v++) {
        mval *x = &M.V[v];
        int is_last = M.K[x->owner].last[x->key] == x;
        SIM_CHECK(x->dtor == (is_last ? 1 : 0), "key:destructor-count", "a value (%s) was destroyed %d times", is_last ? "stored at the free" : "overwritten earlier", x->dtor);
    }
    ABT_OK(ABT_mutex_free(&M.mtx));
    for (int k = 0; k < MX_KEYS; k++)
        ABT_OK(ABT_key_free(&M.keys[k]));
    wl_rt_stop(rt);
    sim_count("mix.cancels_before_start", (uint64_t)M.cancels_before_start);
    sim_count("mix.cancels_cut_short", (uint64_t)M.cancels_cut_short);
    sim_count("mix.revives", (uint64_t)M.revives);
    sim_count("mix.migrations", (uint64_t)M.migrations);
    sim_count("mix.suspends", (uint64_t)M.suspends);
    sim_count("mix.critical_sections", (uint64_t)M.cs_count);
}
static void run_mix_c01(void)
{
    run_mix();
}
static void run_mix_c12(void)
{
    run_mix();
}
static void run_mix_c16(void)
{
    run_mix();
}
SIM_WORKLOAD("C01", "mix", run_mix_c01, 3)
SIM_WORKLOAD("C12", "mix", run_mix_c12, 3)
SIM_WORKLOAD("C16", "mix", run_mix_c16, 3)
