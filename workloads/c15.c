/* C15: descriptors and stacks are exclusively owned, conserved; any stack size works */
#include "wl_common.h"
#include "whitebox.h"

/* ================================================================ (a) white-box memory-pool driver */
#define MAXLIVE 128
#define MAXTH 4
typedef struct blk {
    char *p;
    int owner; /* thread holding it, -1: in the exchange list */
} blk;
static struct {
    wb_mp *mp;
    size_t elem, hdr_off;
    blk live[MAXLIVE];
    int nlive;
    int nth, nops[MAXTH];
    volatile int done[MAXTH];
    long allocs, frees, xfers, alloc_fail;
    int use_mprotect;
} M;

static void blk_add(char *p, int owner)
{
    SIM_CHECK(((uintptr_t)(p + M.hdr_off) & 63) == 0, "mem:misaligned", "memory pool returned a block whose header %p is not cache-line aligned", (void *)(p + M.hdr_off));
    for (int i = 0; i < M.nlive; i++) {
        char *q = M.live[i].p;
        SIM_CHECK(p + M.elem <= q || q + M.elem <= p, "mem:blocks-overlap", "memory pool handed out block [%p,+%zu) while block [%p,+%zu) is live", (void *)p, M.elem, (void *)q,
                  M.elem);
    }
    SIM_CHECK(M.nlive < MAXLIVE, "infra:too-many-blocks", "live table full");
    M.live[M.nlive].p = p;
    M.live[M.nlive].owner = owner;
    M.nlive++;
}

static void mp_thread(void *arg)
{
    int me = (int)(long)arg;
    for (int i = 0; i < M.nops[me]; i++) {
        int r = (int)sim_rand_n(SIM_RS_CHAOS, 10);
        int mine[MAXLIVE], nm = 0, exch[MAXLIVE], nx = 0;
        for (int k = 0; k < M.nlive; k++) {
            if (M.live[k].owner == me)
                mine[nm++] = k;
            else if (M.live[k].owner == -1)
                exch[nx++] = k;
        }
        if (r < 5 || (nm == 0 && nx == 0)) {
            if (M.nlive >= MAXLIVE - MAXTH)
                continue;
            char *p = (char *)wb_mp_alloc(M.mp, me);
            if (!p) {
                M.alloc_fail++;
                continue;
            }
            blk_add(p, me);
            /* the block is mine: scribble over what is writable */
            size_t lo = M.use_mprotect ? 8192 : 0;
            if (lo + 64 <= M.hdr_off)
                memset(p + lo, 0x40 + me, 64);
            memset(p + M.hdr_off, 0x40 + me, wb_mp_header_bytes());
            M.allocs++;
        } else if (r < 8 && nm) {
            int k = mine[sim_rand_n(SIM_RS_CHAOS, (uint32_t)nm)];
            char *p = M.live[k].p;
            size_t lo = M.use_mprotect ? 8192 : 0;
            if (lo + 64 <= M.hdr_off)
                for (int b = 0; b < 64; b++)
                    SIM_CHECK(p[lo + (size_t)b] == (char)(0x40 + me), "mem:block-clobbered", "block %p owned by thread %d was overwritten", (void *)p, me);
            M.live[k] = M.live[--M.nlive];
            wb_mp_free(M.mp, me, p);
            M.frees++;
        } else if (r == 8 && nm) {
            /* hand a block to whoever frees it: blocks may be returned to any local pool */
            int k = mine[sim_rand_n(SIM_RS_CHAOS, (uint32_t)nm)];
            M.live[k].owner = -1;
            M.xfers++;
        } else if (nx) {
            int k = exch[sim_rand_n(SIM_RS_CHAOS, (uint32_t)nx)];
            char *p = M.live[k].p;
            M.live[k] = M.live[--M.nlive];
            wb_mp_free(M.mp, me, p);
            M.frees++;
        }
        sim_progress();
    }
    M.done[me] = 1;
    sim_progress();
}

static void run_c15_mempool(void)
{
    memset(&M, 0, sizeof M);
    wl_env_swarm();
    ABT_OK(ABT_init(0, NULL));
    sim_allow_faults((1u << SIM_F_STALL) | (1u << SIM_F_SLOW_NODE) | (1u << SIM_F_TARGET_DELAY));
    long base_live = sim_ledger_live();
    int nhdr = plan_range(1, 8);
    static const size_t pgs[] = { 4096, 16384, 65536, 2097152 };
    size_t page = pgs[plan_n(4)];
    int stack_like = plan_bool();
    if (stack_like) {
        M.hdr_off = 4096 * (size_t)plan_range(1, 4);
        M.elem = M.hdr_off + 512 + 64 * (size_t)plan_n(3);
        M.use_mprotect = plan_n(3) == 0;
        if (M.use_mprotect) {
            M.hdr_off += 8192;
            M.elem += 8192;
        }
    } else {
        M.hdr_off = 0;
        M.elem = 128 * (size_t)plan_range(1, 4);
    }
    if (page < 2 * M.elem)
        page = 65536 > 4 * M.elem ? 65536 : 2097152;
    int lp = (int)plan_n(4);
    M.nth = plan_range(2, MAXTH);
    sim_note("C15 mempool hdr/bucket=%d elem=%zu off=%zu page=%zu lp=%d mprotect=%d threads=%d ", nhdr, M.elem, M.hdr_off, page, lp, M.use_mprotect, M.nth);
    M.mp = wb_mp_create((size_t)nhdr, M.elem, M.hdr_off, page, lp, M.use_mprotect);
    int tid[MAXTH];
    for (int t = 0; t < M.nth; t++) {
        int rc = wb_mp_local_init(M.mp, t);
        SIM_CHECK(rc == ABT_SUCCESS, "api-error", "local pool init returned %d", rc);
        M.nops[t] = plan_range(4, sim_limit("ops", 40));
    }
    for (int t = 0; t < M.nth; t++)
        tid[t] = sim_thread_create(mp_thread, (void *)(long)t);
    for (int t = 0; t < M.nth; t++) {
        while (!M.done[t])
            ABT_OK(ABT_thread_yield());
        sim_thread_join(tid[t]);
    }
    /* give everything back, tear down: nothing may be left */
    for (int k = 0; k < M.nlive; k++)
        wb_mp_free(M.mp, k % M.nth, M.live[k].p);
    for (int t = 0; t < M.nth; t++)
        wb_mp_local_destroy(M.mp, t);
    wb_mp_destroy(M.mp);
    SIM_CHECK(sim_ledger_live() == base_live, "M-ledger:leak", "memory pool destroyed but %ld resources obtained by it are still held", sim_ledger_live() - base_live);
    sim_count("c15.mempool_allocs", (uint64_t)M.allocs);
    sim_count("c15.mempool_cross_thread_frees", (uint64_t)M.xfers);
    ABT_OK(ABT_finalize());
    sim_ledger_check_empty("after ABT_finalize");
}
SIM_WORKLOAD("C15", "mempool", run_c15_mempool, 10)

/* ================================================================ (b) ULTs with arbitrary stacks */
#define MAXS 12
typedef struct su {
    int id, kind, pool, creator, freer; /* kind: 0 default, 1 attr stack size, 2 user stack */
    int use_key;
    size_t size;
    char *ustack;
    ABT_thread th;
    volatile int created, done, freed;
    char *lo, *hi;
    int depth;
} su;
static struct {
    wl_rt rt;
    su U[MAXS];
    int n;
    int guard; /* stack guard pages in use: leave the lowest pages alone */
    volatile int ext_done[2];
    int next;
    long ext_frees_of_user_stack_ults;
    ABT_key key; /* some units store a value: their key table is one more pooled block */
    int reuse_attr;
    ABT_thread_attr cattr[4];
    long attr_reuses;
} Q;

static void touch_down(su *u, volatile char *sp, int depth)
{
    /* recurse to use real stack depth */
    volatile char pad[900];
    pad[0] = (char)depth;
    pad[899] = (char)u->id;
    if (depth > 0)
        touch_down(u, sp, depth - 1);
    SIM_CHECK(pad[899] == (char)u->id, "ctx:stack-corrupted", "stack frame of ULT %d was overwritten", u->id);
}

static void stack_fn(void *arg)
{
    su *u = (su *)arg;
    ABT_thread self;
    ABT_OK(ABT_self_get_thread(&self));
    char *top = (char *)wb_thread_stacktop(self);
    size_t sz = wb_thread_stacksize(self);
    volatile char here;
    SIM_CHECK(top && sz, "stack:no-stack", "ULT %d has no stack", u->id);
    SIM_CHECK((char *)&here < top && (char *)&here >= top - sz, "stack:out-of-bounds", "ULT %d runs outside its declared stack [%p,%p)", u->id, (void *)(top - sz), (void *)top);
    if (u->kind == 1 || u->kind == 2)
        SIM_CHECK(sz >= u->size, "stack:too-small", "ULT %d asked for %zu bytes of stack and got %zu", u->id, u->size, sz);
    if (u->kind == 2)
        SIM_CHECK(top - sz >= u->ustack && top <= u->ustack + u->size, "stack:outside-user-buffer", "ULT %d: stack [%p,%p) is not inside the user buffer [%p,%p)", u->id,
                  (void *)(top - sz), (void *)top, (void *)u->ustack, (void *)(u->ustack + u->size));
    if (u->use_key)
        ABT_OK(ABT_key_set(Q.key, u));
    u->lo = top - sz;
    u->hi = top;
    if (u->kind != 2)
        SIM_CHECK(sim_ledger_contains(u->lo, u->hi), "stack:not-in-one-allocation", "ULT %d: stack [%p,%p) does not lie inside one block the runtime allocated", u->id, (void *)u->lo,
                  (void *)u->hi);
    /* no live work unit's descriptor (the handle is its address) lies inside this stack */
    for (int i = 0; i < Q.n; i++) {
        su *o = &Q.U[i];
        if (o == u || !o->created || o->freed)
            continue;
        char *d = (char *)o->th;
        SIM_CHECK(!(d >= u->lo && d < u->hi), "stack:overlaps-descriptor", "stack [%p,%p) of ULT %d contains the descriptor %p of live ULT %d", (void *)u->lo, (void *)u->hi, u->id,
                  (void *)d, o->id);
    }
    /* no live ULT shares this stack */
    for (int i = 0; i < Q.n; i++) {
        su *o = &Q.U[i];
        if (o == u || !o->lo || o->done)
            continue;
        SIM_CHECK(u->hi <= o->lo || o->hi <= u->lo, "stack:overlap", "stacks of live ULTs %d [%p,%p) and %d [%p,%p) overlap", u->id, (void *)u->lo, (void *)u->hi, o->id,
                  (void *)o->lo, (void *)o->hi);
    }
    /* use the claimed range: recursion near the top, direct writes at the bottom */
    size_t skip = Q.guard ? 8192 : 0;
    {
        /* stay inside what is usable: with guard pages the two lowest pages are off limits */
        size_t room = (size_t)((char *)&here - (top - sz));
        int maxdepth = room > skip + 6000 ? (int)((room - skip - 6000) / 1000) : 0;
        touch_down(u, &here, u->depth < maxdepth ? u->depth : maxdepth);
    }
    if (sz > skip + 4096) {
        volatile char *bottom = (volatile char *)(top - sz + skip);
        for (int b = 0; b < 128; b++)
            bottom[b] = (char)(u->id + 1);
    }
    ABT_OK(ABT_thread_yield());
    if (sz > skip + 4096) {
        volatile char *bottom = (volatile char *)(top - sz + skip);
        for (int b = 0; b < 128; b++)
            SIM_CHECK(bottom[b] == (char)(u->id + 1), "stack:overlap", "the bottom of ULT %d's stack was overwritten while it was suspended", u->id);
    }
    u->done = 1;
    sim_progress();
}

static void create_su(su *u)
{
    ABT_thread_attr attr = ABT_THREAD_ATTR_NULL;
    int reuse = Q.reuse_attr && u->kind != 0;
    if (reuse) {
        /* one attribute object per creator, set anew for every ULT it creates: what an earlier
         * ULT was given (a user stack in particular) must not leak into the next one */
        attr = Q.cattr[u->creator];
        if (attr == ABT_THREAD_ATTR_NULL) {
            ABT_OK(ABT_thread_attr_create(&attr));
            Q.cattr[u->creator] = attr;
        }
        if (u->kind == 2)
            ABT_OK(ABT_thread_attr_set_stack(attr, u->ustack, u->size));
        else /* "allocate a stack of this size for me" (ABT_thread_attr_set_stacksize would keep a user stack set before, as documented) */
            ABT_OK(ABT_thread_attr_set_stack(attr, NULL, u->size));
        void *ga = (void *)1;
        size_t gs = 0;
        ABT_OK(ABT_thread_attr_get_stack(attr, &ga, &gs));
        SIM_CHECK(ga == (u->kind == 2 ? (void *)u->ustack : NULL) && gs == u->size, "stack:attribute", "ULT %d: the attribute was set to (%p, %zu) and reads back (%p, %zu)", u->id,
                  u->kind == 2 ? (void *)u->ustack : NULL, u->size, ga, gs);
        Q.attr_reuses++;
    } else if (u->kind == 1) {
        ABT_OK(ABT_thread_attr_create(&attr));
        ABT_OK(ABT_thread_attr_set_stacksize(attr, u->size));
    } else if (u->kind == 2) {
        ABT_OK(ABT_thread_attr_create(&attr));
        ABT_OK(ABT_thread_attr_set_stack(attr, u->ustack, u->size));
    }
    ABT_OK(ABT_thread_create(Q.rt.pools[u->pool], stack_fn, u, attr, &u->th));
    if (attr != ABT_THREAD_ATTR_NULL && !reuse)
        ABT_OK(ABT_thread_attr_free(&attr));
    size_t got = 0;
    ABT_OK(ABT_thread_get_stacksize(u->th, &got));
    if (u->kind)
        SIM_CHECK(got >= u->size, "stack:too-small", "ABT_thread_get_stacksize = %zu for a request of %zu", got, u->size);
    u->created = 1;
    sim_progress();
}
static void free_su(su *u)
{
    while (!u->created)
        sim_yield();
    u->freed = 1; /* the descriptor may be reused from now on */
    ABT_OK(ABT_thread_free(&u->th));
    SIM_CHECK(u->done, "once:not-exactly-once", "ULT %d freed before it ran", u->id);
    sim_progress();
}

static void ext_worker(void *arg)
{
    int me = (int)(long)arg; /* actor id 1.. */
    for (int i = 0; i < Q.n; i++)
        if (Q.U[i].creator == me)
            create_su(&Q.U[i]);
    for (int i = 0; i < Q.n; i++)
        if (Q.U[i].freer == me)
            free_su(&Q.U[i]);
    Q.ext_done[me - 1] = 1;
    sim_progress();
}

static void run_c15_stacks(void)
{
    memset(&Q, 0, sizeof Q);
    wl_rt *rt = &Q.rt;
    wl_rt_start(rt, 0);
    const char *g = getenv("ABT_STACK_OVERFLOW_CHECK");
    Q.guard = g && !strncmp(g, "mprotect", 8);
    static char ubuf[MAXS][300000];
    ABT_OK(ABT_key_create(NULL, &Q.key));
    /* several rounds in one runtime, so that blocks travel through the local and global memory
     * pools; per run one kind of stack / one freeing actor may be favoured (swarm) */
    int rounds = plan_range(1, 4);
    int fav_kind = (int)plan_n(4) - 1, fav_freer = (int)plan_n(4) - 1;
    int next = (int)plan_n(3);
    Q.reuse_attr = plan_n(3) == 0;
    for (int k = 0; k < 4; k++)
        Q.cattr[k] = ABT_THREAD_ATTR_NULL;
    for (int round = 0; round < rounds; round++) {
        memset(Q.U, 0, sizeof Q.U);
        Q.ext_done[0] = Q.ext_done[1] = 0;
        Q.n = plan_range(1, round ? sim_limit("units_later", MAXS) : sim_limit("units", 6));
        Q.next = next;
        sim_note("C15 stacks round %d units=%d ext=%d guard=%d: ", round, Q.n, Q.next, Q.guard);
        for (int i = 0; i < Q.n; i++) {
            su *u = &Q.U[i];
            u->id = i;
            u->kind = (int)plan_n(3);
            if (fav_kind >= 0 && plan_n(3))
                u->kind = fav_kind;
            u->pool = (int)plan_n((uint32_t)rt->npools);
            u->creator = (int)plan_n((uint32_t)Q.next + 1);
            u->freer = (int)plan_n((uint32_t)Q.next + 1);
            if (fav_freer >= 0 && fav_freer <= Q.next && plan_n(3))
                u->freer = fav_freer;
            /* log-uniform sizes, most of them not multiples of 64 */
            int sh = plan_range(14, sim_tier() ? 24 : 21);
            u->size = ((size_t)1 << sh) + (size_t)plan_n(1u << (sh - 1));
            if (u->kind == 1)
                u->size = (u->size & ~(size_t)7) + (size_t)plan_n(8) * (plan_bool() ? 8 : 1);
            if (u->kind == 2) {
                if (u->size > 290000)
                    u->size = 16384 + (u->size % 270000);
                u->size &= ~(size_t)7;
                u->ustack = ubuf[i] + 8 * plan_n(8);
                if (u->freer > 0)
                    Q.ext_frees_of_user_stack_ults++;
            }
            u->depth = (int)plan_n(10);
            u->use_key = plan_n(3) == 0;
            sim_note("u%d:k%d/%zu/c%d/f%d%s ", i, u->kind, u->kind ? u->size : 0, u->creator, u->freer, u->use_key ? "/key" : "");
        }
        int tid[2];
        for (int k = 0; k < Q.next; k++)
            tid[k] = sim_thread_create(ext_worker, (void *)(long)(k + 1));
        for (int i = 0; i < Q.n; i++)
            if (Q.U[i].creator == 0)
                create_su(&Q.U[i]);
        for (int i = 0; i < Q.n; i++)
            if (Q.U[i].freer == 0) {
                while (!Q.U[i].created)
                    ABT_OK(ABT_thread_yield());
                free_su(&Q.U[i]);
            }
        for (int k = 0; k < Q.next; k++) {
            while (!Q.ext_done[k])
                ABT_OK(ABT_thread_yield());
            sim_thread_join(tid[k]);
        }
        for (int i = 0; i < Q.n; i++)
            SIM_CHECK(Q.U[i].freed && Q.U[i].done, "once:not-exactly-once", "ULT %d: done=%d freed=%d", i, Q.U[i].done, Q.U[i].freed);
    }
    ABT_OK(ABT_key_free(&Q.key));
    for (int k = 0; k < 4; k++)
        if (Q.cattr[k] != ABT_THREAD_ATTR_NULL)
            ABT_OK(ABT_thread_attr_free(&Q.cattr[k]));
    sim_count("c15.ext_frees_of_user_stack_ults", (uint64_t)Q.ext_frees_of_user_stack_ults);
    sim_count("c15.attribute_objects_reused", (uint64_t)Q.attr_reuses);
    wl_rt_stop(rt);
}
SIM_WORKLOAD("C15", "stacks", run_c15_stacks, 10)
/* C02: "on a stack that no other live ULT shares", over every stack provenance and freeing actor */
static void run_c02_stacks(void)
{
    run_c15_stacks();
}
SIM_WORKLOAD("C02", "stacks", run_c02_stacks, 3)

/* ================================================================ (c) descriptor churn */
/* Worker ULTs in pools shared by several streams create small batches of tasklets / ULTs and
 * free them at once, i.e. while they may still be queued or running: the free then waits in a
 * yield loop or blocks, and the worker may continue on another stream.  Descriptors and stacks
 * go back to the memory pool of the stream the worker is on *now*.  Oracles: a handle handed out
 * by a create is not the handle of a live unit; the M-local-pool monitor (stream-local pools
 * are touched by their own stream only); every unit runs once; nothing is left at the end. */
#define CH_MAXW 6
#define CH_MAXB 6
#define CH_LIVE 64
static struct {
    wl_rt rt;
    ABT_thread live[CH_LIVE];
    int nlive;
    volatile int runs[CH_MAXW][CH_MAXB];
    int rounds[CH_MAXW];
    volatile int wdone[CH_MAXW];
    long created, moved;
} H;
static void ch_unit(void *arg)
{
    volatile int *r = (volatile int *)arg;
    (*r)++;
}
static void ch_unit_yield(void *arg)
{
    volatile int *r = (volatile int *)arg;
    ABT_OK(ABT_thread_yield());
    (*r)++;
}
static void ch_live_add(ABT_thread t)
{
    for (int i = 0; i < H.nlive; i++)
        SIM_CHECK(H.live[i] != t, "desc:handed-out-twice", "a create returned the handle %p, which belongs to a unit that is still live", (void *)t);
    SIM_CHECK(H.nlive < CH_LIVE, "infra:c15-live-table", "live table full");
    H.live[H.nlive++] = t;
}
static void ch_live_del(ABT_thread t)
{
    for (int i = 0; i < H.nlive; i++)
        if (H.live[i] == t) {
            H.live[i] = H.live[--H.nlive];
            return;
        }
    sim_fail("infra:c15-live-table", "handle not in the live table");
}
static void ch_worker(void *arg)
{
    int w = (int)(long)arg;
    for (int r = 0; r < H.rounds[w]; r++) {
        int n = 1 + (int)sim_rand_n(SIM_RS_CHAOS, CH_MAXB);
        ABT_thread t[CH_MAXB];
        int rank0 = -1, rank1 = -1;
        ABT_OK(ABT_self_get_xstream_rank(&rank0));
        for (int i = 0; i < n; i++) {
            H.runs[w][i] = 0;
            ABT_pool p = H.rt.pools[sim_rand_n(SIM_RS_CHAOS, (uint32_t)H.rt.npools)];
            int kind = (int)sim_rand_n(SIM_RS_CHAOS, 3);
            if (kind == 0)
                ABT_OK(ABT_task_create(p, ch_unit, (void *)&H.runs[w][i], &t[i]));
            else
                ABT_OK(ABT_thread_create(p, kind == 1 ? ch_unit : ch_unit_yield, (void *)&H.runs[w][i], ABT_THREAD_ATTR_NULL, &t[i]));
            ch_live_add(t[i]);
            H.created++;
        }
        for (int i = 0; i < n; i++) {
            ABT_thread h = t[i];
            ch_live_del(h); /* from the moment the free is called the descriptor may be reused */
            ABT_OK(ABT_thread_free(&t[i]));
            SIM_CHECK(H.runs[w][i] == 1, "once:not-exactly-once", "unit %d of worker %d ran %d times before ABT_thread_free returned", i, w, H.runs[w][i]);
        }
        ABT_OK(ABT_self_get_xstream_rank(&rank1));
        if (rank0 != rank1)
            H.moved++;
        sim_progress();
    }
    H.wdone[w] = 1;
}
static void run_c15_churn(void)
{
    memset(&H, 0, sizeof H);
    wl_rt *rt = &H.rt;
    wl_rt_start(rt, WL_RT_NEED_SHARED | WL_RT_MIN2ES | WL_RT_NO_TOPO2);
    int nw = plan_range(1, CH_MAXW);
    sim_note("C15 churn workers=%d ", nw);
    ABT_thread wt[CH_MAXW];
    for (int w = 0; w < nw; w++) {
        H.rounds[w] = plan_range(1, 4);
        /* pools[0] is the shared pool */
        ABT_OK(ABT_thread_create(rt->pools[0], ch_worker, (void *)(long)w, ABT_THREAD_ATTR_NULL, &wt[w]));
    }
    for (int w = 0; w < nw; w++) {
        ABT_OK(ABT_thread_free(&wt[w]));
        SIM_CHECK(H.wdone[w], "once:not-exactly-once", "worker %d did not finish", w);
        sim_progress();
    }
    SIM_CHECK(H.nlive == 0, "infra:c15-live-table", "live table not empty");
    wl_rt_stop(rt);
    sim_count("c15.churn_units", (uint64_t)H.created);
    sim_count("c15.churn_rounds_finished_on_another_stream", (uint64_t)H.moved);
}
SIM_WORKLOAD("C15", "churn", run_c15_churn, 6)

/* ================================================================ (d) cancel handled at pop */
/* An unnamed ULT that has already run on one stream sits in a pool shared by several streams
 * when a cancellation request arrives; whichever stream pops it next terminates and frees it.
 * Its descriptor and stack must go to the memory pool of the stream that does the freeing
 * (oracle: M-local-pool monitor; ledger at the end). */
#define CP_MAX 6
static struct {
    wl_rt rt;
    int n;
    struct cpu {
        ABT_thread self;
        volatile int ready, go, ended, slices;
    } U[CP_MAX];
} CP;
static void cp_fn(void *arg)
{
    struct cpu *u = (struct cpu *)arg;
    ABT_OK(ABT_self_get_thread(&u->self));
    u->ready = 1;
    while (!u->go) {
        u->slices++;
        ABT_OK(ABT_thread_yield());
    }
    u->ended = 1;
}
static void run_c15_cancel_at_pop(void)
{
    memset(&CP, 0, sizeof CP);
    wl_rt *rt = &CP.rt;
    wl_rt_start(rt, WL_RT_NEED_SHARED | WL_RT_MIN2ES | WL_RT_NO_TOPO2);
    CP.n = plan_range(1, CP_MAX);
    sim_note("C15 cancel-at-pop units=%d ", CP.n);
    for (int i = 0; i < CP.n; i++)
        ABT_OK(ABT_thread_create(rt->pools[0], cp_fn, &CP.U[i], ABT_THREAD_ATTR_NULL, NULL)); /* unnamed */
    long cancelled = 0;
    for (int i = 0; i < CP.n; i++) {
        struct cpu *u = &CP.U[i];
        while (!u->ready)
            ABT_OK(ABT_thread_yield());
        /* let it change streams a few times */
        int spins = (int)sim_rand_n(SIM_RS_CHAOS, 6);
        for (int k = 0; k < spins; k++)
            ABT_OK(ABT_thread_yield());
        /* the unit is alive (it leaves its loop only after go): its handle is valid */
        if (sim_rand_n(SIM_RS_CHAOS, 4)) {
            ABT_OK(ABT_thread_cancel(u->self));
            cancelled++;
        }
        u->go = 1;
        sim_progress();
    }
    wl_rt_stop(rt); /* joins the streams: every unit has ended or was cancelled by then */
    for (int i = 0; i < CP.n; i++)
        SIM_CHECK(CP.U[i].ready, "once:not-exactly-once", "unit %d never ran", i);
    sim_count("c15.cancel_requests_to_queued_unnamed_units", (uint64_t)cancelled);
}
SIM_WORKLOAD("C15", "cancel-at-pop", run_c15_cancel_at_pop, 4)
