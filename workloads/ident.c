/* "identity": what a running work unit can find out about itself stays true across every
 * kind of switch -- its handle, ID, unit, argument, function, stack, pool, execution stream --
 * and agrees with what other callers are told about it.  The units are created in every way
 * the API offers (attribute absent / default / explicit stack size / caller-provided stack /
 * migration callback and migratability given in the attribute, ABT_thread_create_many with an
 * attribute, tasklets), they yield with ABT_thread_yield and ABT_self_yield and migrate
 * themselves between the pools of the shared topologies.
 * Registered for C02 (the context -- here: the identity a unit reads through ABT_self_* --
 * survives every switch), C12 (state seen by the unit and by its joiner), C13 (last pool and
 * callback after a migration), C15 (stack the unit runs on is the one its attribute names). */
#include "wl_common.h"

#define ID_MAXU 8
#define ID_MAXSTEPS 6
enum { MK_NULLATTR = 0, MK_DEFATTR, MK_SIZEATTR, MK_USERSTACK, MK_MANY, MK_TASK, MK_UNNAMED, MK_N };
static const char *mkn[] = { "attr-null", "attr-default", "attr-size", "attr-userstack", "create_many", "tasklet", "unnamed" };

typedef struct iu {
    int id, how, unnamed, pool, nsteps, migratable, with_cb, step_kind[ID_MAXSTEPS], step_arg[ID_MAXSTEPS];
    size_t req_size;
    char *ustack;
    ABT_thread th;
    volatile int starts, done, have_th; /* have_th: the creator has the handle (the unit may run before ABT_thread_create returns) */
    volatile int cb_calls, expect_cb;
    int cur_pool;
    ABT_unit_id uid;
} iu;

static struct {
    wl_rt rt;
    int n;
    iu U[ID_MAXU];
    size_t default_stacksize;
    long checks, migrations, cb_calls, not_migratable;
} I;

static char id_stacks[ID_MAXU][65536 + 64] __attribute__((aligned(64)));

static void id_cb(ABT_thread thread, void *arg)
{
    iu *u = (iu *)arg;
    ABT_bool eq = ABT_FALSE;
    if (u->have_th) {
        ABT_OK(ABT_thread_equal(thread, u->th, &eq));
        SIM_CHECK(eq == ABT_TRUE, "migrate:callback-wrong-thread", "the migration callback of unit %d received another unit's handle", u->id);
    }
    u->cb_calls++;
    I.cb_calls++;
}

static int pool_index(ABT_pool p)
{
    for (int i = 0; i < I.rt.npools; i++)
        if (I.rt.pools[i] == p)
            return i;
    return -1;
}

/* everything the unit can learn about itself, checked against what the harness knows */
static void observe(iu *u, const char *when)
{
    int is_task = u->how == MK_TASK;
    ABT_thread self = ABT_THREAD_NULL, t2 = (ABT_thread)1;
    ABT_bool b = ABT_FALSE;
    ABT_OK(ABT_self_get_thread(&self));
    SIM_CHECK(self != ABT_THREAD_NULL, "identity:self-null", "unit %d (%s, %s): ABT_self_get_thread returned the null handle", u->id, mkn[u->how], when);
    if (u->have_th) {
        ABT_OK(ABT_thread_equal(self, u->th, &b));
        SIM_CHECK(b == ABT_TRUE, "identity:self-handle", "unit %d (%s, %s): ABT_self_get_thread is not the handle its creator got", u->id, mkn[u->how], when);
    }
    int rc = ABT_thread_self(&t2);
    if (is_task)
        SIM_CHECK(rc == ABT_ERR_INV_THREAD && t2 == ABT_THREAD_NULL, "identity:thread-self-in-tasklet", "ABT_thread_self in a tasklet returned %d / %p", rc, (void *)t2);
    else
        SIM_CHECK(rc == ABT_SUCCESS && t2 == self, "identity:self-handle", "unit %d (%s): ABT_thread_self returned %d / a handle other than ABT_self_get_thread's", u->id, when, rc);
    ABT_task k2 = (ABT_task)1;
    rc = ABT_task_self(&k2);
    if (is_task)
        SIM_CHECK(rc == ABT_SUCCESS && k2 == self, "identity:self-handle", "tasklet %d (%s): ABT_task_self returned %d / another handle", u->id, when, rc);
    else
        SIM_CHECK(rc == ABT_ERR_INV_TASK && k2 == ABT_TASK_NULL, "identity:task-self-in-ult", "ABT_task_self in a ULT returned %d / %p", rc, (void *)k2);
    /* type */
    ABT_unit_type ty;
    ABT_OK(ABT_self_get_type(&ty));
    SIM_CHECK(ty == (is_task ? ABT_UNIT_TYPE_TASK : ABT_UNIT_TYPE_THREAD), "identity:type", "unit %d: ABT_self_get_type = %d", u->id, (int)ty);
    /* IDs: one value, whoever asks and however */
    ABT_unit_id a = 0, c = 0, d = 0;
    ABT_OK(ABT_self_get_thread_id(&a));
    ABT_OK(ABT_thread_get_id(self, &c));
    if (is_task) {
        ABT_OK(ABT_task_self_id(&d));
        ABT_unit_id e = 0;
        ABT_OK(ABT_task_get_id(self, &e));
        SIM_CHECK(e == a, "identity:id", "tasklet %d: ABT_task_get_id = %lu, ABT_self_get_thread_id = %lu", u->id, (unsigned long)e, (unsigned long)a);
    } else
        ABT_OK(ABT_thread_self_id(&d));
    SIM_CHECK(a == c && a == d, "identity:id", "unit %d (%s): IDs disagree: self_get_thread_id=%lu get_id=%lu self_id=%lu", u->id, when, (unsigned long)a, (unsigned long)c,
              (unsigned long)d);
    if (u->uid == (ABT_unit_id)-1)
        u->uid = a;
    SIM_CHECK(u->uid == a, "identity:id-changed", "unit %d (%s): its ID changed from %lu to %lu", u->id, when, (unsigned long)u->uid, (unsigned long)a);
    for (int j = 0; j < I.n; j++)
        if (j != u->id && I.U[j].uid != (ABT_unit_id)-1)
            SIM_CHECK(I.U[j].uid != a, "identity:id-shared", "units %d and %d have the same ID %lu", u->id, j, (unsigned long)a);
    /* execution stream */
    ABT_xstream xs = ABT_XSTREAM_NULL, xs2 = ABT_XSTREAM_NULL;
    int r1 = -1, r2 = -1, r3 = -1;
    ABT_OK(ABT_self_get_xstream(&xs));
    ABT_OK(ABT_xstream_self(&xs2));
    ABT_OK(ABT_xstream_equal(xs, xs2, &b));
    SIM_CHECK(b == ABT_TRUE, "identity:xstream", "ABT_self_get_xstream and ABT_xstream_self disagree");
    ABT_OK(ABT_xstream_get_rank(xs, &r1));
    ABT_OK(ABT_self_get_xstream_rank(&r2));
    ABT_OK(ABT_xstream_self_rank(&r3));
    SIM_CHECK(r1 == r2 && r2 == r3, "identity:xstream", "unit %d: ranks disagree: %d %d %d", u->id, r1, r2, r3);
    int esidx = -1;
    for (int e = 0; e < I.rt.nes; e++)
        if (I.rt.xs[e] == xs)
            esidx = e;
    SIM_CHECK(esidx >= 0, "identity:xstream", "unit %d runs on an execution stream the program never created", u->id);
    ABT_xstream lx = ABT_XSTREAM_NULL;
    ABT_OK(ABT_thread_get_last_xstream(self, &lx));
    SIM_CHECK(lx == xs, "identity:last-xstream", "unit %d (%s): ABT_thread_get_last_xstream is not the stream the unit is running on", u->id, when);
    if (is_task) {
        ABT_OK(ABT_task_get_xstream(self, &lx));
        SIM_CHECK(lx == xs, "identity:last-xstream", "tasklet %d: ABT_task_get_xstream is not the stream it is running on", u->id);
    }
    ABT_bool onp = ABT_FALSE, isp = ABT_TRUE;
    ABT_OK(ABT_self_on_primary_xstream(&onp));
    ABT_OK(ABT_xstream_is_primary(xs, &b));
    SIM_CHECK(onp == b && (onp == ABT_TRUE) == (esidx == 0), "identity:primary-xstream", "unit %d on stream #%d: ABT_self_on_primary_xstream=%d ABT_xstream_is_primary=%d", u->id,
              esidx, (int)onp, (int)b);
    rc = ABT_self_is_primary(&isp);
    if (is_task)
        SIM_CHECK(rc == ABT_ERR_INV_THREAD, "identity:is-primary", "ABT_self_is_primary in a tasklet returned %d", rc);
    else
        SIM_CHECK(rc == ABT_SUCCESS && isp == ABT_FALSE, "identity:is-primary", "unit %d: ABT_self_is_primary returned %d / %d", u->id, rc, (int)isp);
    ABT_OK(ABT_thread_is_primary(self, &isp));
    SIM_CHECK(isp == ABT_FALSE, "identity:is-primary", "unit %d: ABT_thread_is_primary says it is the primary ULT", u->id);
    /* named / unnamed */
    ABT_bool un = ABT_FALSE, un2 = ABT_FALSE;
    ABT_OK(ABT_self_is_unnamed(&un));
    ABT_OK(ABT_thread_is_unnamed(self, &un2));
    SIM_CHECK(un == un2 && (un == ABT_TRUE) == (u->unnamed != 0), "identity:unnamed", "unit %d (%s): is_unnamed = %d / %d", u->id, mkn[u->how], (int)un, (int)un2);
    /* argument and function */
    void *arg = NULL, *arg2 = NULL;
    ABT_OK(ABT_self_get_arg(&arg));
    ABT_OK(ABT_thread_get_arg(self, &arg2));
    SIM_CHECK(arg == (void *)u && arg2 == (void *)u, "identity:arg", "unit %d (%s): its argument reads %p / %p, it was created with %p", u->id, when, arg, arg2, (void *)u);
    if (is_task) {
        ABT_OK(ABT_task_get_arg(self, &arg2));
        SIM_CHECK(arg2 == (void *)u, "identity:arg", "tasklet %d: ABT_task_get_arg = %p", u->id, arg2);
    }
    /* unit and pool */
    ABT_unit un1 = ABT_UNIT_NULL, un3 = ABT_UNIT_NULL;
    ABT_OK(ABT_self_get_unit(&un1));
    ABT_OK(ABT_thread_get_unit(self, &un3));
    SIM_CHECK(un1 == un3 && un1 != ABT_UNIT_NULL, "identity:unit", "unit %d (%s): ABT_self_get_unit=%p ABT_thread_get_unit=%p", u->id, when, (void *)un1, (void *)un3);
    ABT_thread back = ABT_THREAD_NULL;
    ABT_OK(ABT_unit_get_thread(un1, &back));
    SIM_CHECK(back == self, "identity:unit", "unit %d (%s): ABT_unit_get_thread of its own unit is another work unit", u->id, when);
    ABT_pool p1 = ABT_POOL_NULL, p2 = ABT_POOL_NULL;
    int pid1 = -1, pid2 = -1, pid3 = -1;
    ABT_OK(ABT_self_get_last_pool(&p1));
    ABT_OK(ABT_thread_get_last_pool(self, &p2));
    ABT_OK(ABT_self_get_last_pool_id(&pid1));
    ABT_OK(ABT_thread_get_last_pool_id(self, &pid2));
    ABT_OK(ABT_pool_get_id(p1, &pid3));
    SIM_CHECK(p1 == p2 && pid1 == pid2 && pid1 == pid3, "identity:last-pool", "unit %d (%s): last pool %p/%p ids %d/%d/%d", u->id, when, (void *)p1, (void *)p2, pid1, pid2, pid3);
    if (is_task) {
        ABT_OK(ABT_task_get_last_pool(self, &p2));
        ABT_OK(ABT_task_get_last_pool_id(self, &pid2));
        SIM_CHECK(p1 == p2 && pid1 == pid2, "identity:last-pool", "tasklet %d: ABT_task_get_last_pool(_id) disagree with ABT_self_get_last_pool(_id)", u->id);
    }
    SIM_CHECK(pool_index(p1) == u->cur_pool, "identity:last-pool", "unit %d (%s): its last pool is #%d, it was last pushed to #%d", u->id, when, pool_index(p1), u->cur_pool);
    /* state */
    ABT_thread_state st;
    ABT_OK(ABT_thread_get_state(self, &st));
    SIM_CHECK(st == ABT_THREAD_STATE_RUNNING, "lifecycle:state-while-running", "unit %d (%s): it reads its own state as %d", u->id, when, (int)st);
    if (is_task) {
        ABT_task_state ts;
        ABT_OK(ABT_task_get_state(self, &ts));
        SIM_CHECK(ts == ABT_TASK_STATE_RUNNING, "lifecycle:state-while-running", "tasklet %d: it reads its own state as %d", u->id, (int)ts);
    }
    /* migratability */
    ABT_OK(ABT_thread_is_migratable(self, &b));
    SIM_CHECK((b == ABT_TRUE) == (u->migratable != 0), "identity:migratable", "unit %d (%s): is_migratable=%d, created with %d", u->id, mkn[u->how], (int)b, u->migratable);
    if (is_task) {
        ABT_OK(ABT_task_is_migratable(self, &b));
        SIM_CHECK((b == ABT_TRUE) == (u->migratable != 0), "identity:migratable", "tasklet %d: ABT_task_is_migratable=%d", u->id, (int)b);
    }
    /* stack */
    size_t ss = 1;
    ABT_OK(ABT_thread_get_stacksize(self, &ss));
    ABT_thread_attr at = ABT_THREAD_ATTR_NULL;
    rc = ABT_thread_get_attr(self, &at);
    if (is_task) {
        SIM_CHECK(ss == 0, "stack:tasklet-size", "ABT_thread_get_stacksize of a tasklet is %zu", ss);
        SIM_CHECK(rc == ABT_ERR_INV_THREAD, "stack:tasklet-attr", "ABT_thread_get_attr of a tasklet returned %d", rc);
    } else {
        size_t want = u->req_size ? u->req_size : I.default_stacksize;
        SIM_CHECK(ss == want, "stack:size", "unit %d (%s): ABT_thread_get_stacksize = %zu, requested %zu", u->id, mkn[u->how], ss, want);
        SIM_CHECK(rc == ABT_SUCCESS, "api-error", "ABT_thread_get_attr returned %d", rc);
        size_t as = 0, as2 = 0;
        void *ap = NULL;
        ABT_OK(ABT_thread_attr_get_stacksize(at, &as));
        ABT_OK(ABT_thread_attr_get_stack(at, &ap, &as2));
        SIM_CHECK(as == ss && as2 == ss, "stack:attr-size", "unit %d: the attribute of the running unit names a stack of %zu/%zu bytes, ABT_thread_get_stacksize %zu", u->id, as, as2, ss);
        if (u->ustack)
            SIM_CHECK(ap == (void *)u->ustack, "stack:attr-address", "unit %d: created on the caller's stack %p, its attribute names %p", u->id, (void *)u->ustack, ap);
        /* the unit really runs on the stack its attribute describes */
        char probe;
        SIM_CHECK(ap && &probe >= (char *)ap && &probe < (char *)ap + as, "stack:not-on-own-stack", "unit %d (%s, %s): a local variable at %p is outside its stack [%p,+%zu)", u->id,
                  mkn[u->how], when, (void *)&probe, ap, as);
        ABT_OK(ABT_thread_attr_free(&at));
    }
    void (*fn)(void *) = NULL;
    ABT_OK(ABT_thread_get_thread_func(self, &fn));
    ABT_OK(ABT_self_get_thread_func(&fn));
    I.checks++;
}

static void id_fn(void *arg);
static void id_fn_check_func(iu *u, ABT_thread self)
{
    void (*fn)(void *) = NULL, (*fn2)(void *) = NULL;
    ABT_OK(ABT_thread_get_thread_func(self, &fn));
    ABT_OK(ABT_self_get_thread_func(&fn2));
    SIM_CHECK(fn == id_fn && fn2 == id_fn, "identity:func", "unit %d: its function reads as %p / %p", u->id, (void *)(uintptr_t)fn, (void *)(uintptr_t)fn2);
}

static void id_fn(void *arg)
{
    iu *u = (iu *)arg;
    u->starts++;
    SIM_CHECK(u->starts == 1, "once:started-twice", "unit %d started %d times", u->id, u->starts);
    ABT_thread self;
    ABT_OK(ABT_self_get_thread(&self));
    id_fn_check_func(u, self);
    observe(u, "at start");
    for (int s = 0; s < u->nsteps && u->how != MK_TASK; s++) {
        switch (u->step_kind[s]) {
            case 0:
                ABT_OK(ABT_thread_yield());
                observe(u, "after ABT_thread_yield");
                break;
            case 1:
                ABT_OK(ABT_self_yield());
                observe(u, "after ABT_self_yield");
                break;
            case 2: {
                int p = u->step_arg[s] % I.rt.npools;
                int rc = ABT_thread_migrate_to_pool(self, I.rt.pools[p]);
                if (!u->migratable) {
                    SIM_CHECK(rc == ABT_ERR_INV_THREAD, "migrate:not-migratable", "ABT_thread_migrate_to_pool of a unit created non-migratable returned %d", rc);
                    I.not_migratable++;
                    break;
                }
                SIM_CHECK(rc == ABT_SUCCESS || rc == ABT_ERR_MIGRATION_TARGET, "migrate:error-code", "ABT_thread_migrate_to_pool returned %d", rc);
                SIM_CHECK((rc == ABT_ERR_MIGRATION_TARGET) == (p == u->cur_pool), "migrate:error-code", "unit %d in pool #%d asked for pool #%d: returned %d", u->id, u->cur_pool, p,
                          rc);
                if (rc != ABT_SUCCESS)
                    break;
                if (u->with_cb)
                    u->expect_cb++;
                if (u->step_arg[s] & 64)
                    ABT_OK(ABT_self_yield());
                else
                    ABT_OK(ABT_thread_yield());
                u->cur_pool = p;
                I.migrations++;
                SIM_CHECK(u->cb_calls == u->expect_cb, "migrate:callback-count", "unit %d: %d migrations done, its callback (given in the attribute) ran %d times", u->id, u->expect_cb,
                          u->cb_calls);
                observe(u, "after a migration");
                break;
            }
            case 3: {
                /* the argument can be replaced; the new one is what everybody reads */
                int dummy;
                void *g = NULL;
                if (u->step_arg[s] & 1)
                    ABT_OK(ABT_self_set_arg(&dummy));
                else
                    ABT_OK(ABT_thread_set_arg(self, &dummy));
                ABT_OK(ABT_self_get_arg(&g));
                SIM_CHECK(g == (void *)&dummy, "identity:arg", "unit %d: argument replaced, ABT_self_get_arg still reads %p", u->id, g);
                ABT_OK(ABT_thread_yield());
                ABT_OK(ABT_thread_get_arg(self, &g));
                SIM_CHECK(g == (void *)&dummy, "identity:arg", "unit %d: the replaced argument did not survive a yield", u->id);
                ABT_OK(ABT_thread_set_arg(self, u));
                break;
            }
        }
        sim_progress();
    }
    u->done = 1;
    sim_progress();
}

/* an external thread has no identity inside the runtime */
static void ext_main(void *arg)
{
    (void)arg;
    ABT_xstream xs = (ABT_xstream)1;
    ABT_thread th = (ABT_thread)1;
    ABT_unit_type ty;
    int rc = ABT_self_get_xstream(&xs);
    SIM_CHECK(rc == ABT_ERR_INV_XSTREAM, "identity:ext", "ABT_self_get_xstream on an external thread returned %d", rc);
    rc = ABT_thread_self(&th);
    SIM_CHECK(rc == ABT_ERR_INV_XSTREAM && th == ABT_THREAD_NULL, "identity:ext", "ABT_thread_self on an external thread returned %d / %p", rc, (void *)th);
    rc = ABT_self_get_type(&ty);
    SIM_CHECK(rc == ABT_ERR_INV_XSTREAM && ty == ABT_UNIT_TYPE_EXT, "identity:ext", "ABT_self_get_type on an external thread returned %d / %d", rc, (int)ty);
    ABT_bool b = ABT_TRUE;
    rc = ABT_self_on_primary_xstream(&b);
    SIM_CHECK(rc == ABT_ERR_INV_XSTREAM && b == ABT_FALSE, "identity:ext", "ABT_self_on_primary_xstream on an external thread returned %d / %d", rc, (int)b);
    int pid = 0;
    rc = ABT_self_get_last_pool_id(&pid);
    SIM_CHECK(rc == ABT_ERR_INV_XSTREAM && pid == -1, "identity:ext", "ABT_self_get_last_pool_id on an external thread returned %d / %d", rc, pid);
    sim_progress();
}

static void run_identity(void)
{
    memset(&I, 0, sizeof I);
    wl_rt *rt = &I.rt;
    wl_rt_start(rt, 0);
    ABT_OK(ABT_info_query_config(ABT_INFO_QUERY_KIND_DEFAULT_THREAD_STACKSIZE, &I.default_stacksize));
    I.n = plan_range(1, sim_limit("units", ID_MAXU));
    sim_note("identity n=%d:", I.n);
    /* the primary ULT knows it is one */
    {
        ABT_bool b = ABT_FALSE;
        ABT_thread me;
        ABT_OK(ABT_self_is_primary(&b));
        SIM_CHECK(b == ABT_TRUE, "identity:is-primary", "the primary ULT is told it is not primary");
        ABT_OK(ABT_self_get_thread(&me));
        ABT_OK(ABT_thread_is_primary(me, &b));
        SIM_CHECK(b == ABT_TRUE, "identity:is-primary", "ABT_thread_is_primary of the primary ULT is false");
        ABT_OK(ABT_self_on_primary_xstream(&b));
        SIM_CHECK(b == ABT_TRUE, "identity:primary-xstream", "the primary ULT is told it is not on the primary stream");
    }
    int many_idx[ID_MAXU], nmany = 0;
    for (int i = 0; i < I.n; i++) {
        iu *u = &I.U[i];
        u->id = i;
        u->uid = (ABT_unit_id)-1;
        u->how = (int)plan_n(MK_N);
        u->unnamed = u->how == MK_UNNAMED;
        u->pool = u->cur_pool = (int)plan_n((uint32_t)rt->npools);
        u->nsteps = plan_range(0, ID_MAXSTEPS);
        u->migratable = u->how == MK_NULLATTR || u->how == MK_TASK || u->how == MK_UNNAMED || plan_n(4) != 0;
        u->with_cb = (u->how == MK_DEFATTR || u->how == MK_SIZEATTR || u->how == MK_USERSTACK) && plan_bool();
        for (int s = 0; s < u->nsteps; s++) {
            u->step_kind[s] = (int)plan_n(4);
            u->step_arg[s] = (int)plan_n(1 << 10);
        }
        if (u->how == MK_SIZEATTR || u->how == MK_MANY)
            u->req_size = 16384 + 8 * plan_n(4096);
        if (u->how == MK_USERSTACK) {
            u->req_size = 32768 + 64 * plan_n(512);
            u->ustack = id_stacks[i] + 64 * plan_n(2);
        }
        sim_note(" %s/p%d/s%d%s%s", mkn[u->how], u->pool, u->nsteps, u->migratable ? "" : "/nomig", u->with_cb ? "/cb" : "");
        if (u->how == MK_MANY)
            many_idx[nmany++] = i;
    }
    int etid = sim_thread_create(ext_main, NULL);
    for (int i = 0; i < I.n; i++) {
        iu *u = &I.U[i];
        ABT_pool pool = rt->pools[u->pool];
        ABT_thread_attr attr = ABT_THREAD_ATTR_NULL;
        switch (u->how) {
            case MK_NULLATTR:
                ABT_OK(ABT_thread_create(pool, id_fn, u, ABT_THREAD_ATTR_NULL, &u->th));
                u->have_th = 1;
                break;
            case MK_UNNAMED:
                ABT_OK(ABT_thread_create(pool, id_fn, u, ABT_THREAD_ATTR_NULL, NULL));
                break;
            case MK_TASK:
                ABT_OK(ABT_task_create(pool, id_fn, u, &u->th));
                u->have_th = 1;
                break;
            case MK_MANY:
                break;
            default:
                ABT_OK(ABT_thread_attr_create(&attr));
                if (u->how == MK_SIZEATTR)
                    ABT_OK(ABT_thread_attr_set_stacksize(attr, u->req_size));
                if (u->how == MK_USERSTACK)
                    ABT_OK(ABT_thread_attr_set_stack(attr, u->ustack, u->req_size));
                if (u->with_cb)
                    ABT_OK(ABT_thread_attr_set_callback(attr, id_cb, u));
                ABT_OK(ABT_thread_attr_set_migratable(attr, u->migratable ? ABT_TRUE : ABT_FALSE));
                ABT_OK(ABT_thread_create(pool, id_fn, u, attr, &u->th));
                u->have_th = 1;
                ABT_OK(ABT_thread_attr_free(&attr));
                break;
        }
    }
    if (nmany) {
        /* one attribute for the whole batch: all get the stack size of the first */
        ABT_pool pl[ID_MAXU];
        void (*fl[ID_MAXU])(void *);
        void *al[ID_MAXU];
        ABT_thread tl[ID_MAXU];
        ABT_thread_attr attr;
        iu *first = &I.U[many_idx[0]];
        ABT_OK(ABT_thread_attr_create(&attr));
        ABT_OK(ABT_thread_attr_set_stacksize(attr, first->req_size));
        ABT_OK(ABT_thread_attr_set_migratable(attr, first->migratable ? ABT_TRUE : ABT_FALSE));
        for (int k = 0; k < nmany; k++) {
            iu *u = &I.U[many_idx[k]];
            u->req_size = first->req_size;
            u->migratable = first->migratable;
            pl[k] = rt->pools[u->pool];
            fl[k] = id_fn;
            al[k] = u;
        }
        int batch_unnamed = plan_n(3) == 0; /* no handle array: the whole batch is unnamed */
        if (batch_unnamed)
            for (int k = 0; k < nmany; k++)
                I.U[many_idx[k]].unnamed = 1;
        ABT_OK(ABT_thread_create_many(nmany, pl, fl, al, attr, batch_unnamed ? NULL : tl));
        ABT_OK(ABT_thread_attr_free(&attr));
        for (int k = 0; k < nmany && !batch_unnamed; k++) {
            I.U[many_idx[k]].th = tl[k];
            I.U[many_idx[k]].have_th = 1;
        }
    }
    for (int i = 0; i < I.n; i++) {
        iu *u = &I.U[i];
        if (u->unnamed) {
            while (!u->done)
                ABT_OK(ABT_thread_yield());
            continue;
        }
        ABT_OK(ABT_thread_join(u->th));
        SIM_CHECK(u->starts == 1 && u->done == 1, "once:not-exactly-once", "unit %d (%s) has starts=%d done=%d when its join returned", i, mkn[u->how], u->starts, u->done);
        ABT_thread_state st;
        ABT_OK(ABT_thread_get_state(u->th, &st));
        SIM_CHECK(st == ABT_THREAD_STATE_TERMINATED, "join:state-not-terminated", "unit %d: state %d after join", i, (int)st);
        if (u->how == MK_TASK) {
            ABT_task_state ts;
            ABT_OK(ABT_task_get_state(u->th, &ts));
            SIM_CHECK(ts == ABT_TASK_STATE_TERMINATED, "join:state-not-terminated", "tasklet %d: ABT_task_get_state = %d after join", i, (int)ts);
        }
        /* what others are told after the end agrees with what the unit saw */
        ABT_unit_id gid;
        ABT_pool lp;
        ABT_OK(ABT_thread_get_id(u->th, &gid));
        SIM_CHECK(gid == u->uid, "identity:id-changed", "unit %d: its ID read %lu while it ran and reads %lu after its end", i, (unsigned long)u->uid, (unsigned long)gid);
        ABT_OK(ABT_thread_get_last_pool(u->th, &lp));
        SIM_CHECK(pool_index(lp) == u->cur_pool, "identity:last-pool", "unit %d: last pool #%d after its end, it ran last from #%d", i, pool_index(lp), u->cur_pool);
        SIM_CHECK(u->cb_calls == u->expect_cb, "migrate:callback-count", "unit %d: %d migrations, %d callbacks", i, u->expect_cb, u->cb_calls);
        ABT_OK(ABT_thread_free(&u->th));
        sim_progress();
    }
    sim_thread_join(etid);
    wl_rt_stop(rt);
    sim_count("identity.observations", (uint64_t)I.checks);
    sim_count("identity.migrations", (uint64_t)I.migrations);
    sim_count("identity.callbacks", (uint64_t)I.cb_calls);
    sim_count("identity.not_migratable_refused", (uint64_t)I.not_migratable);
}
static void run_identity_c02(void)
{
    run_identity();
}
static void run_identity_c12(void)
{
    run_identity();
}
static void run_identity_c13(void)
{
    run_identity();
}
static void run_identity_c15(void)
{
    run_identity();
}
SIM_WORKLOAD("C02", "identity", run_identity_c02, 2)
SIM_WORKLOAD("C12", "identity", run_identity_c12, 2)
SIM_WORKLOAD("C13", "identity", run_identity_c13, 2)
SIM_WORKLOAD("C15", "identity", run_identity_c15, 2)
