/* C06: stream join/free and ABT_finalize wait for all work, then terminate */
#include "wl_common.h"
#include "whitebox.h"

#define MAXU 16
enum { G_NONE = 0, G_EVENTUAL, G_SUSPEND, G_MUTEX, G_COND, G_N };
static const char *gn[] = { "none", "eventual", "suspend", "mutex", "cond" };

typedef struct unit6 {
    int id, home_es, pool, gate, yields_before, yields_after, migrate_to; /* migrate_to: pool index or -1 */
    int is_task, yield_to_child;
    int replace_sched; /* 0: no; 1..3: replace my stream's main scheduler (by BASIC/PRIO/RANDWS) */
    volatile int started, at_gate, released, done;
    ABT_thread self; /* valid while the unit is alive */
    ABT_eventual_memory evm WL_ALIGNED_MEMORY;
    ABT_eventual ev;
} unit6;

static struct {
    wl_rt rt;
    unit6 U[MAXU];
    int n;
    volatile int join_issued[WL_MAX_ES]; /* [0]: ABT_finalize */
    ABT_mutex_memory mm WL_ALIGNED_MEMORY;
    ABT_mutex m;     /* held by the releaser: G_MUTEX units block on it */
    ABT_mutex_memory cmm WL_ALIGNED_MEMORY;
    ABT_mutex cm;    /* protects the condition */
    ABT_cond_memory cvm WL_ALIGNED_MEMORY;
    ABT_cond cv;
    volatile int cond_flag[MAXU];
    volatile int releaser_done, mutex_held;
    int nmutex_units, mutex_home;
    volatile int pool_alive[WL_MAX_POOLS];
    long released_after_join, scheds_replaced;
} S;

static void child_fn(void *arg)
{
    (void)arg;
}

static void unit_fn(void *arg)
{
    unit6 *u = (unit6 *)arg;
    u->started++;
    SIM_CHECK(u->started == 1, "once:started-twice", "unit %d started twice", u->id);
    if (!u->is_task)
        ABT_OK(ABT_self_get_thread(&u->self));
    for (int i = 0; i < u->yields_before; i++)
        if (u->is_task)
            sim_yield();
        else
            ABT_OK(ABT_thread_yield());
    ABT_thread child = ABT_THREAD_NULL;
    if (u->yield_to_child) {
        /* a sibling in my own pool, which only the stream I am running on serves: it cannot
         * be popped before I hand control to it */
        ABT_OK(ABT_thread_create(S.rt.pools[u->pool], child_fn, NULL, ABT_THREAD_ATTR_NULL, &child));
    }
    if (u->migrate_to >= 0) {
        /* the request is handled at the next scheduling point, possibly the blocking one */
        ABT_OK(ABT_thread_migrate_to_pool(u->self, S.rt.pools[u->migrate_to]));
    }
    if (u->yield_to_child) {
        ABT_OK(ABT_thread_yield_to(child));
        ABT_OK(ABT_thread_free(&child));
    }
    switch (u->gate) {
        case G_EVENTUAL:
            u->at_gate = 1;
            ABT_OK(ABT_eventual_wait(u->ev, NULL));
            break;
        case G_SUSPEND:
            u->at_gate = 1;
            ABT_OK(ABT_self_suspend());
            break;
        case G_MUTEX:
            u->at_gate = 1;
            ABT_OK(ABT_mutex_lock(S.m));
            ABT_OK(ABT_mutex_unlock(S.m));
            break;
        case G_COND:
            ABT_OK(ABT_mutex_lock(S.cm));
            u->at_gate = 1;
            while (!S.cond_flag[u->id])
                ABT_OK(ABT_cond_wait(S.cv, S.cm));
            ABT_OK(ABT_mutex_unlock(S.cm));
            break;
        default:
            break;
    }
    if (u->gate != G_NONE)
        SIM_CHECK(u->released, "block:ran-without-release", "unit %d passed its %s gate before it was released", u->id, gn[u->gate]);
    if (u->replace_sched && !u->is_task) {
        /* replace the main scheduler of the stream I run on by a new one over the same pools.
         * For a unit that passed a gate this happens after the join of its stream was issued:
         * the new scheduler must still honour that join. */
        ABT_xstream xs;
        ABT_sched sc;
        ABT_pool ps[4];
        int n = 0;
        ABT_bool primary = ABT_TRUE;
        ABT_OK(ABT_xstream_self(&xs));
        ABT_OK(ABT_xstream_is_primary(xs, &primary));
        ABT_OK(ABT_xstream_get_main_sched(xs, &sc));
        ABT_OK(ABT_sched_get_num_pools(sc, &n));
        /* (not on the primary stream: ABT_finalize stops the scheduler object that is the main
         * scheduler when it is called, so replacing it afterwards is the program's error) */
        if (primary == ABT_FALSE && n >= 1 && n <= 4) {
            static const ABT_sched_predef kinds[] = { ABT_SCHED_BASIC, ABT_SCHED_PRIO, ABT_SCHED_RANDWS };
            ABT_OK(ABT_sched_get_pools(sc, n, 0, ps));
            ABT_OK(ABT_xstream_set_main_sched_basic(xs, kinds[u->replace_sched - 1], n, ps));
            S.scheds_replaced++;
        }
    }
    for (int i = 0; i < u->yields_after; i++)
        if (!u->is_task)
            ABT_OK(ABT_thread_yield());
    u->done = 1;
    sim_progress();
}

static void check_blocked(const char *when)
{
    for (int i = 0; i < S.rt.npools; i++) {
        if (!S.pool_alive[i])
            continue; /* freed together with its stream */
        int nb = wb_pool_num_blocked(S.rt.pools[i]);
        SIM_CHECK(nb >= 0, "pool:num-blocked-negative", "num_blocked of pool %d is %d %s", i, nb, when);
    }
}

/* external thread: releases every gate, but only after the join/finalize that must wait for
 * the unit has been issued */
static void releaser(void *arg)
{
    (void)arg;
    int left = 1;
    while (left) {
        left = 0;
        int mutex_waiters_pending = 0;
        for (int i = 0; i < S.n; i++) {
            unit6 *u = &S.U[i];
            if (u->gate == G_NONE || u->released)
                continue;
            left = 1;
            if (u->gate == G_MUTEX)
                mutex_waiters_pending++;
            if (!S.join_issued[u->home_es] || !u->at_gate)
                continue;
            if (sim_rand_n(SIM_RS_CHAOS, 3) == 0)
                continue; /* not yet */
            switch (u->gate) {
                case G_EVENTUAL:
                    u->released = 1;
                    ABT_OK(ABT_eventual_set(u->ev, NULL, 0));
                    break;
                case G_SUSPEND: {
                    ABT_thread_state st;
                    ABT_OK(ABT_thread_get_state(u->self, &st));
                    if (st != ABT_THREAD_STATE_BLOCKED)
                        continue;
                    u->released = 1;
                    ABT_OK(ABT_thread_resume(u->self));
                    break;
                }
                case G_MUTEX:
                    /* all of them are released together by the unlock below */
                    continue;
                case G_COND:
                    ABT_OK(ABT_mutex_lock(S.cm));
                    u->released = 1;
                    S.cond_flag[u->id] = 1;
                    ABT_OK(ABT_cond_broadcast(S.cv));
                    ABT_OK(ABT_mutex_unlock(S.cm));
                    break;
            }
            S.released_after_join++;
            sim_progress();
        }
        if (S.mutex_held && mutex_waiters_pending) {
            int all_ready = 1;
            for (int i = 0; i < S.n; i++)
                if (S.U[i].gate == G_MUTEX && !(S.join_issued[S.U[i].home_es] && S.U[i].at_gate))
                    all_ready = 0;
            if (all_ready) {
                for (int i = 0; i < S.n; i++)
                    if (S.U[i].gate == G_MUTEX)
                        S.U[i].released = 1;
                S.mutex_held = 0;
                ABT_OK(ABT_mutex_unlock(S.m));
                sim_progress();
            }
        }
        check_blocked("while units are blocked and a join is pending");
        sim_yield();
    }
    if (S.mutex_held) {
        S.mutex_held = 0;
        ABT_OK(ABT_mutex_unlock(S.m));
    }
    S.releaser_done = 1;
    sim_progress();
}

static void releaser_boot(void *arg)
{
    /* the releaser owns the mutex from the start */
    ABT_OK(ABT_mutex_lock(S.m));
    S.mutex_held = 1;
    releaser(arg);
}

static void diag(char *buf, int sz)
{
    int k = snprintf(buf, (size_t)sz, "join_issued=%d%d%d%d rel_done=%d mheld=%d ", S.join_issued[0], S.join_issued[1], S.join_issued[2], S.join_issued[3], S.releaser_done,
                     S.mutex_held);
    for (int i = 0; i < S.n && k < sz - 40; i++)
        if (!S.U[i].done)
            k += snprintf(buf + k, (size_t)(sz - k), "u%d@es%d/p%d:%s:st%d/gate%d/rel%d ", i, S.U[i].home_es, S.U[i].pool, gn[S.U[i].gate], S.U[i].started, S.U[i].at_gate,
                          S.U[i].released);
    for (int i = 0; i < S.rt.npools && k < sz - 20; i++)
        if (S.pool_alive[i])
            k += snprintf(buf + k, (size_t)(sz - k), "nb%d=%d ", i, wb_pool_num_blocked(S.rt.pools[i]));
}

static void run_c06(void)
{
    memset(&S, 0, sizeof S);
    sim_set_diag_cb(diag);
    wl_rt *rt = &S.rt;
    /* every secondary stream owns a pool nobody else serves */
    wl_rt_start(rt, 0);
    {
        ABT_mutex_memory mi = ABT_MUTEX_INITIALIZER;
        ABT_cond_memory ci = ABT_COND_INITIALIZER;
        S.mm = mi;
        S.cmm = mi;
        S.cvm = ci;
        S.m = ABT_MUTEX_MEMORY_GET_HANDLE(&S.mm);
        S.cm = ABT_MUTEX_MEMORY_GET_HANDLE(&S.cmm);
        S.cv = ABT_COND_MEMORY_GET_HANDLE(&S.cvm);
    }
    int n = plan_range(1, sim_limit("units", 10));
    S.n = n;
    for (int p = 0; p < rt->npools; p++)
        S.pool_alive[p] = 1;
    sim_note("C06 units=%d: ", n);
    int use_free_directly = plan_bool();
    for (int i = 0; i < n; i++) {
        unit6 *u = &S.U[i];
        u->id = i;
        /* home: a pool served by exactly one stream (the stream whose join must wait for it) */
        int cand[WL_MAX_POOLS], nc = 0;
        for (int p = 0; p < rt->npools; p++)
            if (rt->pool_es[p] >= 0)
                cand[nc++] = p;
        u->pool = cand[plan_n((uint32_t)nc)];
        u->home_es = rt->pool_es[u->pool];
        u->is_task = plan_n(6) == 0;
        u->gate = u->is_task ? G_NONE : (int)plan_n(G_N);
        u->yields_before = (int)plan_n(3);
        u->yields_after = (int)plan_n(3);
        u->replace_sched = !u->is_task && plan_n(6) == 0 ? 1 + (int)plan_n(3) : 0;
        u->migrate_to = -1;
        if (!u->is_task && plan_n(4) == 0) {
            /* migrate to a pool of the primary stream (joined last, by ABT_finalize) */
            for (int p = 0; p < rt->npools; p++)
                if (rt->pool_es[p] == 0 && p != u->pool)
                    u->migrate_to = p;
        }
        /* (ABT_thread_yield_to needs the deprecated remove operation of the target's pool) */
        u->yield_to_child = !u->is_task && u->yields_before == 0 && plan_n(3) == 0 && rt->pool_kind[u->pool] != 3;
        if (u->gate == G_EVENTUAL) {
            ABT_eventual_memory ei = ABT_EVENTUAL_INITIALIZER;
            u->evm = ei;
            u->ev = ABT_EVENTUAL_MEMORY_GET_HANDLE(&u->evm);
        }
        if (u->gate == G_MUTEX) {
            /* one unlock releases all of them: they must wait for the same join */
            if (S.nmutex_units == 0)
                S.mutex_home = u->home_es;
            if (u->home_es != S.mutex_home)
                u->gate = G_SUSPEND;
            else
                S.nmutex_units++;
        }
        sim_note("%s%d@es%d:%s%s%s ", u->is_task ? "T" : "U", i, u->home_es, gn[u->gate], u->migrate_to >= 0 ? "+mig" : "", u->yield_to_child ? "+yield_to" : "");
    }
    int rel = sim_thread_create(S.nmutex_units ? releaser_boot : releaser, NULL);
    if (S.nmutex_units)
        while (!S.mutex_held)
            ABT_OK(ABT_thread_yield());
    for (int i = 0; i < n; i++) {
        unit6 *u = &S.U[i];
        /* unnamed: nobody joins them individually */
        if (u->is_task)
            ABT_OK(ABT_task_create(rt->pools[u->pool], unit_fn, u, NULL));
        else
            ABT_OK(ABT_thread_create(rt->pools[u->pool], unit_fn, u, ABT_THREAD_ATTR_NULL, NULL));
    }
    sim_progress();
    /* join the secondary streams while their units are still blocked */
    for (int e = rt->nes - 1; e >= 1; e--) {
        S.join_issued[e] = 1;
        if (use_free_directly && (e & 1)) {
            for (int p = 0; p < rt->npools; p++)
                if (rt->pool_es[p] == e)
                    S.pool_alive[p] = 0;
            ABT_OK(ABT_xstream_free(&rt->xs[e]));
            rt->joined[e] = 2;
        } else {
            ABT_OK(ABT_xstream_join(rt->xs[e]));
            rt->joined[e] = 1;
            ABT_xstream_state st;
            ABT_OK(ABT_xstream_get_state(rt->xs[e], &st));
            SIM_CHECK(st == ABT_XSTREAM_STATE_TERMINATED, "join:stream-not-terminated", "stream %d is in state %d after ABT_xstream_join", e, (int)st);
        }
        sim_progress();
        for (int i = 0; i < n; i++) {
            unit6 *u = &S.U[i];
            if (u->home_es == e && u->migrate_to < 0)
                SIM_CHECK(u->done, "join:returned-with-work-left",
                          "ABT_xstream_%s of stream %d returned although unit %d of its private pool has not terminated (started=%d at_gate=%d released=%d)",
                          rt->joined[e] == 2 ? "free" : "join", e, u->id, u->started, u->at_gate, u->released);
        }
    }
    for (int p = 0; p < rt->npools; p++)
        S.pool_alive[p] = 0;
    for (int e = 1; e < rt->nes; e++)
        if (rt->joined[e] == 1)
            ABT_OK(ABT_xstream_free(&rt->xs[e]));
    /* everything left (units of the primary stream's pools, migrated units) must be finished
     * by ABT_finalize */
    S.join_issued[0] = 1;
    sim_progress();
    ABT_OK(ABT_finalize());
    sim_progress();
    for (int i = 0; i < n; i++)
        SIM_CHECK(S.U[i].done, "finalize:returned-with-work-left", "ABT_finalize returned although unit %d (home stream %d) has not terminated (started=%d at_gate=%d released=%d)",
                  i, S.U[i].home_es, S.U[i].started, S.U[i].at_gate, S.U[i].released);
    sim_thread_join(rel);
    sim_count("c06.gates_released_after_join_issued", (uint64_t)S.released_after_join);
    sim_count("c06.main_scheds_replaced_by_units", (uint64_t)S.scheds_replaced);
    sim_ledger_check_empty("after ABT_finalize");
}
SIM_WORKLOAD("C06", "join-waits", run_c06, 10)

/* ---- scenario "pool-reuse": one user-managed (not automatic) pool serves several execution
 * streams one after the other.  Each stream is joined while some of its units are still
 * blocked; an external thread releases them only after the join has been issued.  The join
 * must wait for them every time, not only for the pool's first stream. ---- */
#define PR_MAXU 5
static struct {
    ABT_pool P;
    ABT_eventual ev[PR_MAXU];
    volatile int done[PR_MAXU], blocks[PR_MAXU];
    int n;
    volatile int join_issued, round_over, stop;
    long released;
    int use_barrier, nb; /* the units block in ABT_barrier_wait; the releaser is the last arriver */
    ABT_barrier bar;
} PR;
static void pr_unit(void *arg)
{
    int i = (int)(long)arg;
    if (PR.blocks[i] && PR.use_barrier)
        ABT_OK(ABT_barrier_wait(PR.bar));
    else if (PR.blocks[i])
        ABT_OK(ABT_eventual_wait(PR.ev[i], NULL));
    else
        ABT_OK(ABT_thread_yield());
    PR.done[i] = 1;
    sim_progress();
}
static void pr_releaser(void *arg)
{
    (void)arg;
    while (!PR.stop) {
        if (PR.join_issued && !PR.round_over) {
            /* a few steps later, so that the joined stream finds its pool empty first */
            for (int k = 0; k < 3 + (int)sim_rand_n(SIM_RS_CHAOS, 40); k++)
                sim_yield();
            if (PR.use_barrier) {
                if (PR.nb > 0) {
                    ABT_OK(ABT_barrier_wait(PR.bar)); /* the last arrival: everybody returns */
                    PR.released += PR.nb;
                    sim_progress();
                }
            } else
                for (int i = 0; i < PR.n; i++)
                    if (PR.blocks[i]) {
                        ABT_OK(ABT_eventual_set(PR.ev[i], NULL, 0));
                        PR.released++;
                        sim_progress();
                    }
            PR.round_over = 1;
        }
        sim_yield();
    }
}
static int pool_reuse_barrier;
static void run_pool_reuse(void)
{
    memset(&PR, 0, sizeof PR);
    PR.use_barrier = pool_reuse_barrier;
    wl_env_swarm();
    ABT_OK(ABT_init(0, NULL));
    static const ABT_pool_kind pk[] = { ABT_POOL_FIFO, ABT_POOL_FIFO_WAIT, ABT_POOL_RANDWS };
    static const ABT_sched_predef sk[] = { ABT_SCHED_BASIC, ABT_SCHED_BASIC_WAIT, ABT_SCHED_PRIO, ABT_SCHED_RANDWS };
    ABT_OK(ABT_pool_create_basic(pk[plan_n(3)], ABT_POOL_ACCESS_MPMC, ABT_FALSE, &PR.P));
    int rounds = plan_range(1, 3);
    sim_note("pool-reuse rounds=%d ", rounds);
    int tid = sim_thread_create(pr_releaser, NULL);
    for (int r = 0; r < rounds; r++) {
        ABT_xstream xs;
        ABT_thread th[PR_MAXU];
        PR.n = plan_range(1, PR_MAXU);
        PR.join_issued = 0;
        PR.round_over = 0;
        ABT_OK(ABT_xstream_create_basic(sk[plan_n(4)], 1, &PR.P, ABT_SCHED_CONFIG_NULL, &xs));
        PR.nb = 0;
        for (int i = 0; i < PR.n; i++) {
            PR.blocks[i] = plan_n(3) != 0;
            PR.nb += PR.blocks[i];
        }
        if (PR.use_barrier && PR.nb > 0)
            ABT_OK(ABT_barrier_create((uint32_t)PR.nb + 1, &PR.bar));
        for (int i = 0; i < PR.n; i++) {
            PR.done[i] = 0;
            if (PR.blocks[i] && !PR.use_barrier)
                ABT_OK(ABT_eventual_create(0, &PR.ev[i]));
            th[i] = ABT_THREAD_NULL;
            ABT_OK(ABT_thread_create(PR.P, pr_unit, (void *)(long)i, ABT_THREAD_ATTR_NULL, plan_bool() ? &th[i] : NULL));
        }
        if (plan_n(3) == 0) {
            /* the pool's stream is cancelled while units are blocked, joined and freed: the pool
             * has no scheduler for a while.  Its next stream inherits the blocked units: the join
             * of that stream waits for them */
            int nb = 0;
            for (int i = 0; i < PR.n; i++)
                nb += PR.blocks[i];
            for (;;) {
                size_t tot = 0, sz = 1;
                int others_done = 1;
                for (int i = 0; i < PR.n; i++)
                    if (!PR.blocks[i] && !PR.done[i])
                        others_done = 0;
                ABT_OK(ABT_pool_get_total_size(PR.P, &tot));
                ABT_OK(ABT_pool_get_size(PR.P, &sz));
                if (others_done && sz == 0 && tot == (size_t)nb)
                    break;
                ABT_OK(ABT_thread_yield());
            }
            ABT_OK(ABT_xstream_cancel(xs));
            ABT_OK(ABT_xstream_join(xs));
            ABT_OK(ABT_xstream_free(&xs));
            size_t tot = 99;
            ABT_OK(ABT_pool_get_total_size(PR.P, &tot));
            SIM_CHECK(tot == (size_t)nb, "pool:total-size", "round %d: ABT_pool_get_total_size = %zu with %d units blocked and no stream", r, tot, nb);
            ABT_OK(ABT_xstream_create_basic(sk[plan_n(4)], 1, &PR.P, ABT_SCHED_CONFIG_NULL, &xs));
            ABT_OK(ABT_pool_get_total_size(PR.P, &tot));
            SIM_CHECK(tot == (size_t)nb, "pool:total-size", "round %d: ABT_pool_get_total_size = %zu with %d units blocked, right after the pool got a new stream", r, tot, nb);
            sim_count("c06.pool_reuse_blocked_units_inherited", (uint64_t)nb);
            sim_note("inherit%d ", nb);
        }
        PR.join_issued = 1;
        ABT_OK(ABT_xstream_join(xs));
        for (int i = 0; i < PR.n; i++)
            SIM_CHECK(PR.done[i], "join:returned-before-units-finished", "round %d: ABT_xstream_join returned while unit %d of the stream's only pool has not finished (%s)", r, i,
                      PR.blocks[i] ? (PR.use_barrier ? "it was blocked in ABT_barrier_wait" : "it was blocked on an eventual") : "it only yields");
        ABT_xstream_state st;
        ABT_OK(ABT_xstream_get_state(xs, &st));
        SIM_CHECK(st == ABT_XSTREAM_STATE_TERMINATED, "stream:not-terminated", "state %d after join", (int)st);
        size_t tot = 99;
        ABT_OK(ABT_pool_get_total_size(PR.P, &tot));
        SIM_CHECK(tot == 0, "pool:total-size", "round %d: ABT_pool_get_total_size = %zu after the join", r, tot);
        for (int i = 0; i < PR.n; i++)
            if (th[i] != ABT_THREAD_NULL)
                ABT_OK(ABT_thread_free(&th[i]));
        ABT_OK(ABT_xstream_free(&xs));
        while (!PR.round_over)
            ABT_OK(ABT_thread_yield());
        for (int i = 0; i < PR.n; i++)
            if (PR.blocks[i] && !PR.use_barrier)
                ABT_OK(ABT_eventual_free(&PR.ev[i]));
        if (PR.use_barrier && PR.nb > 0)
            ABT_OK(ABT_barrier_free(&PR.bar));
        sim_progress();
    }
    PR.stop = 1;
    sim_thread_join(tid);
    ABT_OK(ABT_pool_free(&PR.P));
    ABT_OK(ABT_finalize());
    sim_ledger_check_empty("after ABT_finalize");
    sim_count("c06.pool_reuse_units_released_after_join", (uint64_t)PR.released);
}
static void run_c06_pool_reuse(void)
{
    run_pool_reuse();
}
static void run_c01_pool_reuse(void)
{
    run_pool_reuse();
}
SIM_WORKLOAD("C06", "pool-reuse", run_c06_pool_reuse, 3)
SIM_WORKLOAD("C01", "pool-reuse", run_c01_pool_reuse, 2)
/* C08: the waiters of a barrier sit in a pool that changes hands; the stream that owns the pool
 * when the last caller arrives keeps running until all of them have returned */
static void run_c08_pool_reuse(void)
{
    pool_reuse_barrier = 1;
    run_pool_reuse();
    pool_reuse_barrier = 0;
}
SIM_WORKLOAD("C08", "waiters-in-a-reused-pool", run_c08_pool_reuse, 2)

/* ---- scenario "priv-pool": a stream schedules an entry pool Q (MPMC) and a private pool P
 * (ABT_POOL_ACCESS_PRIV: every push and pop happens on that stream).  Workers created in P by a
 * unit of that stream block on eventuals; the stream is joined while they are blocked; later an
 * external thread pushes a signaller into Q, which releases them on the stream itself.  P may
 * also be listed by a second scheduler object that never runs (a spare one kept for later, or
 * the stream's previous main scheduler, replaced but not yet freed by its owner): the join has
 * to wait for the blocked workers all the same. ---- */
#define PP_MAXW 3
static struct {
    ABT_xstream es;
    ABT_pool Q, P;
    ABT_eventual ev[PP_MAXW];
    ABT_rwlock rw;
    ABT_thread w[PP_MAXW];
    int nw, mode, ext_producer, use_rwlock, wr[PP_MAXW];
    volatile int created, done[PP_MAXW], join_issued, signalled;
    ABT_sched replaced_by;
} PP;
static void pp_worker(void *arg)
{
    int i = (int)(long)arg;
    if (PP.use_rwlock) {
        if (PP.wr[i])
            ABT_OK(ABT_rwlock_wrlock(PP.rw));
        else
            ABT_OK(ABT_rwlock_rdlock(PP.rw));
        PP.done[i] = 1;
        ABT_OK(ABT_rwlock_unlock(PP.rw));
    } else {
        ABT_OK(ABT_eventual_wait(PP.ev[i], NULL));
        PP.done[i] = 1;
    }
    sim_progress();
}
static void pp_signaller(void *arg)
{
    (void)arg;
    for (int i = 0; i < PP.nw; i++)
        ABT_OK(ABT_eventual_set(PP.ev[i], NULL, 0));
    PP.signalled = 1;
}
static void pp_spawner(void *arg)
{
    (void)arg;
    if (PP.mode == 2) {
        /* replace the running main scheduler by a new one over the same pools; the old one was
         * created as not automatic, so it stays (listing P) until the harness frees it */
        ABT_pool pools[2] = { PP.Q, PP.P };
        ABT_OK(ABT_sched_create_basic(ABT_SCHED_BASIC, 2, pools, ABT_SCHED_CONFIG_NULL, &PP.replaced_by));
        ABT_OK(ABT_xstream_set_main_sched(PP.es, PP.replaced_by));
    }
    if (!PP.ext_producer) {
        for (int i = 0; i < PP.nw; i++)
            ABT_OK(ABT_thread_create(PP.P, pp_worker, (void *)(long)i, ABT_THREAD_ATTR_NULL, &PP.w[i]));
        PP.created = 1;
    }
}
static void pp_releaser(void *arg)
{
    (void)arg;
    if (PP.ext_producer) {
        /* this external thread is the only producer of P: it creates the workers there and it is
         * the one whose unlock / set pushes them back; the stream is the only consumer (the
         * workers never yield), so every access mode but PRIV fits */
        if (PP.use_rwlock)
            ABT_OK(ABT_rwlock_wrlock(PP.rw));
        for (int i = 0; i < PP.nw; i++)
            ABT_OK(ABT_thread_create(PP.P, pp_worker, (void *)(long)i, ABT_THREAD_ATTR_NULL, &PP.w[i]));
        PP.created = 1;
    }
    while (!PP.join_issued)
        sim_yield();
    for (int k = 0; k < 3 + (int)sim_rand_n(SIM_RS_CHAOS, 60); k++)
        sim_yield();
    if (!PP.ext_producer)
        ABT_OK(ABT_thread_create(PP.Q, pp_signaller, NULL, ABT_THREAD_ATTR_NULL, NULL));
    else if (PP.use_rwlock)
        ABT_OK(ABT_rwlock_unlock(PP.rw));
    else
        pp_signaller(NULL);
    sim_progress();
}
static void run_priv_pool(int want_rwlock)
{
    memset(&PP, 0, sizeof PP);
    wl_env_swarm();
    ABT_OK(ABT_init(0, NULL));
    static const ABT_pool_kind pk[] = { ABT_POOL_FIFO, ABT_POOL_RANDWS, ABT_POOL_FIFO_WAIT };
    static const ABT_sched_predef sk[] = { ABT_SCHED_BASIC, ABT_SCHED_PRIO, ABT_SCHED_RANDWS, ABT_SCHED_BASIC_WAIT };
    static const ABT_pool_access acc[] = { ABT_POOL_ACCESS_PRIV, ABT_POOL_ACCESS_SPSC, ABT_POOL_ACCESS_SPMC, ABT_POOL_ACCESS_MPSC, ABT_POOL_ACCESS_MPMC };
    static const char *an[] = { "PRIV", "SPSC", "SPMC", "MPSC", "MPMC" };
    PP.mode = (int)plan_n(3); /* 0 plain, 1 spare scheduler lists P too, 2 replaced main scheduler still lists P */
    PP.nw = plan_range(1, PP_MAXW);
    PP.ext_producer = want_rwlock || plan_bool();
    PP.use_rwlock = PP.ext_producer && (want_rwlock || plan_bool());
    int ai = PP.ext_producer ? 1 + (int)plan_n(4) : (int)plan_n(5);
    /* for pools that are not private the runtime counts blocked units only while a single
     * scheduler object lists the pool (its stand-in for "served by one stream", see the comment in
     * ABTI_sched_has_unit): a second scheduler object only with a private pool */
    if (ai != 0)
        PP.mode = 0;
    int ski = (int)plan_n(4);
    ABT_OK(ABT_pool_create_basic(ski == 3 ? ABT_POOL_FIFO_WAIT : pk[plan_n(2)], ABT_POOL_ACCESS_MPMC, ABT_FALSE, &PP.Q));
    ABT_OK(ABT_pool_create_basic(ski == 3 ? ABT_POOL_FIFO_WAIT : pk[plan_n(2)], acc[ai], ABT_FALSE, &PP.P));
    sim_note("priv-pool mode=%s sched=%d workers=%d pool-access=%s producer=%s blocked-on=%s ", PP.mode == 0 ? "plain" : PP.mode == 1 ? "spare-sched" : "replaced-sched", ski, PP.nw, an[ai],
             PP.ext_producer ? "external-thread" : "the-stream", PP.use_rwlock ? "rwlock" : "eventual");
    for (int i = 0; i < PP.nw; i++) {
        ABT_OK(ABT_eventual_create(0, &PP.ev[i]));
        PP.wr[i] = (int)plan_n(3) == 0;
    }
    ABT_OK(ABT_rwlock_create(&PP.rw));
    ABT_pool pools[2] = { PP.Q, PP.P };
    ABT_sched sa, spare = ABT_SCHED_NULL;
    ABT_sched_config cfg;
    ABT_OK(ABT_sched_config_create(&cfg, ABT_sched_config_automatic, ABT_FALSE, ABT_sched_config_var_end));
    ABT_OK(ABT_sched_create_basic(sk[ski], 2, pools, PP.mode == 2 ? cfg : ABT_SCHED_CONFIG_NULL, &sa));
    if (PP.mode == 1)
        ABT_OK(ABT_sched_create_basic(ABT_SCHED_BASIC, 1, &PP.P, cfg, &spare));
    ABT_OK(ABT_sched_config_free(&cfg));
    ABT_OK(ABT_xstream_create(sa, &PP.es));
    int tid = sim_thread_create(pp_releaser, NULL);
    ABT_OK(ABT_thread_create(PP.Q, pp_spawner, NULL, ABT_THREAD_ATTR_NULL, NULL));
    /* wait until every worker is blocked, so that the stream's pools are empty at the join */
    while (!PP.created)
        ABT_OK(ABT_thread_yield());
    for (int i = 0; i < PP.nw; i++)
        for (;;) {
            ABT_thread_state st;
            ABT_OK(ABT_thread_get_state(PP.w[i], &st));
            if (st == ABT_THREAD_STATE_BLOCKED)
                break;
            ABT_OK(ABT_thread_yield());
        }
    sim_progress();
    PP.join_issued = 1;
    ABT_OK(ABT_xstream_join(PP.es));
    for (int i = 0; i < PP.nw; i++)
        SIM_CHECK(PP.done[i], "join:returned-before-units-finished",
                  "ABT_xstream_join returned while worker %d of the stream's %s pool is still blocked on %s (mode %d: %s)", i, an[ai], PP.use_rwlock ? "a reader-writer lock" : "an eventual", PP.mode,
                  PP.mode == 0 ? "one scheduler" : PP.mode == 1 ? "a spare scheduler object lists the pool too" : "the replaced, not yet freed main scheduler lists the pool too");
    ABT_xstream_state st;
    ABT_OK(ABT_xstream_get_state(PP.es, &st));
    SIM_CHECK(st == ABT_XSTREAM_STATE_TERMINATED, "stream:not-terminated", "state %d after join", (int)st);
    sim_thread_join(tid);
    for (int i = 0; i < PP.nw; i++)
        ABT_OK(ABT_thread_free(&PP.w[i]));
    ABT_OK(ABT_xstream_free(&PP.es));
    if (PP.mode == 2)
        ABT_OK(ABT_sched_free(&sa));
    if (spare != ABT_SCHED_NULL)
        ABT_OK(ABT_sched_free(&spare));
    for (int i = 0; i < PP.nw; i++)
        ABT_OK(ABT_eventual_free(&PP.ev[i]));
    ABT_OK(ABT_rwlock_free(&PP.rw));
    ABT_OK(ABT_pool_free(&PP.Q));
    ABT_OK(ABT_pool_free(&PP.P));
    ABT_OK(ABT_finalize());
    sim_ledger_check_empty("after ABT_finalize");
    sim_count(want_rwlock ? "c10.lockers_of_a_joined_stream" : "c06.priv_pool_joins", 1);
}
static void run_c06_priv_pool(void)
{
    run_priv_pool(0);
}
SIM_WORKLOAD("C06", "priv-pool", run_c06_priv_pool, 2)
/* C10 "every blocked locker eventually acquires the lock": also the lockers of a stream that
 * is being joined while they wait -- the stream has to stay until they were served */
static void run_c10_joined_lockers(void)
{
    run_priv_pool(1);
}
SIM_WORKLOAD("C10", "lockers-of-a-joined-stream", run_c10_joined_lockers, 2)
