/* C03: join/free return after, and only after, the target has terminated */
#include "wl_common.h"

#define MAXT 8
enum { B_RETURN = 0, B_EXIT, B_CANCELLED, B_BLOCKS_FIRST, B_EXIT_TO, B_N };
enum { J_PRIMARY = 0, J_ULT, J_TASKLET, J_EXT, J_N };
enum { W_BEFORE = 0, W_DURING, W_AFTER };

typedef struct target {
    int id, is_task, behaviour, pool, yields;
    ABT_thread th;
    volatile int started, finished, ticks, stop;
    volatile uint64_t last_write;
    ABT_eventual ev;
    ABT_thread helper; /* B_EXIT_TO: a never-started ULT held outside any pool, the exit target */
    volatile int helper_ran;
    /* joiner */
    int jkind, jpool, when, use_join_first, group; /* group >= 0: joined with the _many variant */
    int revive; /* the joiner revives the joined unit once, joins the second life, then frees */
    volatile int second_started, second_finished;
    volatile int joined;
    int ticks_at_join;
} target;

static struct {
    wl_rt rt;
    target T[MAXT];
    int n;
    long futex_joins;
} S;

static void helper_fn(void *arg)
{
    target *t = (target *)arg;
    t->helper_ran++;
    sim_progress();
}

static void target_fn(void *arg)
{
    target *t = (target *)arg;
    t->started = 1;
    sim_progress();
    if (t->behaviour == B_BLOCKS_FIRST) {
        if (t->is_task) {
            /* a tasklet cannot block politely: poll */
            while (!t->stop)
                sim_yield();
        } else
            ABT_OK(ABT_eventual_wait(t->ev, NULL));
    }
    if (t->behaviour == B_CANCELLED) {
        /* runs until cancelled (or told to stop if the cancel raced with termination) */
        while (!t->stop) {
            t->ticks++;
            if (t->is_task)
                sim_yield(); /* a tasklet has no scheduling point: cancellation only prevents its start */
            else
                ABT_OK(ABT_thread_yield());
            if (t->is_task)
                break;
        }
    } else {
        for (int i = 0; i < t->yields; i++) {
            t->ticks++;
            if (t->is_task)
                sim_yield();
            else
                ABT_OK(ABT_thread_yield());
        }
    }
    t->last_write = 0xfeed0000ULL + (uint64_t)t->id;
    t->finished = 1;
    sim_progress();
    if (t->behaviour == B_EXIT_TO && !t->is_task) {
        /* terminates by handing the stream directly to another ULT */
        ABT_self_exit_to(t->helper);
        sim_fail("join:exit-returned", "ABT_self_exit_to returned to the caller");
    }
    if (t->behaviour == B_EXIT && !t->is_task) {
        if (t->yields & 1)
            ABT_thread_exit();
        else
            ABT_self_exit();
        sim_fail("join:exit-returned", "ABT_self_exit/ABT_thread_exit returned to the caller");
    }
}

static void second_life_fn(void *arg)
{
    target *t = (target *)arg;
    t->second_started++;
    for (int i = 0; i < (t->yields & 3); i++) {
        if (t->is_task)
            sim_yield();
        else
            ABT_OK(ABT_thread_yield());
    }
    t->second_finished++;
    sim_progress();
}

static void check_joined(target *t, const char *api)
{
    if (t->behaviour != B_CANCELLED) {
        SIM_CHECK(t->finished, "join:returned-before-termination", "%s of target %d returned but the target's function has not finished (started=%d)", api, t->id,
                  t->started);
        SIM_CHECK(t->last_write == 0xfeed0000ULL + (uint64_t)t->id, "join:writes-not-visible", "target %d's last write is not visible after %s", t->id, api);
    }
    t->ticks_at_join = t->ticks;
    t->joined = 1;
    sim_progress();
}

static void check_state_terminated(target *t, const char *api)
{
    ABT_thread_state st;
    ABT_OK(ABT_thread_get_state(t->th, &st));
    SIM_CHECK(st == ABT_THREAD_STATE_TERMINATED, "join:state-not-terminated", "state of target %d after %s is %d, not TERMINATED", t->id, api, (int)st);
}

static void do_join(target *t, int joiner_is_ult)
{
    if (t->when == W_AFTER) {
        /* wait until the target is observably terminated, then join */
        for (;;) {
            ABT_thread_state st;
            ABT_OK(ABT_thread_get_state(t->th, &st));
            if (st == ABT_THREAD_STATE_TERMINATED)
                break;
            if (joiner_is_ult)
                ABT_OK(ABT_thread_yield());
            else
                sim_yield();
        }
    } else if (t->when == W_DURING) {
        for (int i = 0; i < 3; i++)
            sim_yield();
    }
    if (t->use_join_first) {
        if (t->is_task)
            ABT_OK(ABT_task_join(t->th));
        else
            ABT_OK(ABT_thread_join(t->th));
        check_joined(t, "ABT_thread_join");
        check_state_terminated(t, "ABT_thread_join");
        /* joining again must return at once */
        ABT_OK(ABT_thread_join(t->th));
        check_state_terminated(t, "second ABT_thread_join");
        if (t->revive) {
            /* a second life of the same work unit (whatever ended the first one: return, exit,
             * cancellation before or after it started): the join waits for it just the same */
            if (t->is_task)
                ABT_OK(ABT_task_revive(S.rt.pools[t->pool], second_life_fn, t, &t->th));
            else
                ABT_OK(ABT_thread_revive(S.rt.pools[t->pool], second_life_fn, t, &t->th));
            if (t->yields & 4) {
                if (joiner_is_ult)
                    ABT_OK(ABT_thread_yield());
                else
                    sim_yield();
            }
            ABT_OK(ABT_thread_join(t->th));
            SIM_CHECK(t->second_started == 1 && t->second_finished == 1, "join:returned-before-termination",
                      "ABT_thread_join of the revived target %d returned, but its second life has started %d times and finished %d times", t->id, t->second_started, t->second_finished);
            check_state_terminated(t, "ABT_thread_join of the revived unit");
            sim_count("c03.revived_targets_joined_again", 1);
            sim_progress();
        }
    }
    if (t->is_task)
        ABT_OK(ABT_task_free(&t->th));
    else
        ABT_OK(ABT_thread_free(&t->th));
    SIM_CHECK(t->th == (t->is_task ? ABT_TASK_NULL : ABT_THREAD_NULL), "join:handle-not-null", "ABT_thread_free/ABT_task_free left the handle of target %d non-NULL", t->id);
    if (!t->use_join_first)
        check_joined(t, "ABT_thread_free");
    sim_progress();
}

typedef struct joiner {
    int ntargets, targets[MAXT], many, kind;
    volatile int done;
} joiner;
static joiner JN[MAXT + 1];

static void joiner_fn(void *arg)
{
    joiner *j = (joiner *)arg;
    if (j->many && j->ntargets >= 2) {
        /* the list may contain null handles: they are skipped */
        ABT_thread hs[2 * MAXT + 1];
        int at[MAXT], n = 0;
        for (int k = 0; k < j->ntargets; k++) {
            if (sim_rand_n(SIM_RS_CHAOS, 3) == 0)
                hs[n++] = ABT_THREAD_NULL;
            at[k] = n;
            hs[n++] = S.T[j->targets[k]].th;
        }
        if (sim_rand_n(SIM_RS_CHAOS, 3) == 0)
            hs[n++] = ABT_THREAD_NULL;
        if (j->many == 1) {
            ABT_OK(ABT_thread_join_many(n, hs));
            for (int k = 0; k < j->ntargets; k++) {
                check_joined(&S.T[j->targets[k]], "ABT_thread_join_many");
                check_state_terminated(&S.T[j->targets[k]], "ABT_thread_join_many");
            }
        }
        ABT_OK(ABT_thread_free_many(n, hs));
        for (int k = 0; k < n; k++)
            SIM_CHECK(hs[k] == ABT_THREAD_NULL, "join:handle-not-null", "ABT_thread_free_many left handle %d non-NULL", k);
        for (int k = 0; k < j->ntargets; k++) {
            (void)at[k];
            S.T[j->targets[k]].th = ABT_THREAD_NULL;
            if (j->many != 1)
                check_joined(&S.T[j->targets[k]], "ABT_thread_free_many");
        }
    } else {
        for (int k = 0; k < j->ntargets; k++)
            do_join(&S.T[j->targets[k]], j->kind == J_ULT || j->kind == J_PRIMARY);
    }
    j->done = 1;
    sim_progress();
}

static void diag(char *buf, int sz)
{
    int k = 0;
    for (int i = 0; i < S.n && k < sz - 40; i++) {
        target *t = &S.T[i];
        k += snprintf(buf + k, (size_t)(sz - k), "t%d:%s:b%d:st%d/fin%d/j%d ", i, t->is_task ? "T" : "U", t->behaviour, t->started, t->finished, t->joined);
    }
}

static void run_c03(void)
{
    memset(&S, 0, sizeof S);
    memset(JN, 0, sizeof JN);
    sim_set_diag_cb(diag);
    wl_rt *rt = &S.rt;
    wl_rt_start(rt, WL_RT_NO_TOPO2);
    int n = plan_range(1, sim_limit("targets", 6));
    S.n = n;
    static const char *bn[] = { "ret", "exit", "cancel", "blocks", "exit_to" };
    static const char *jn[] = { "primary", "ult", "tasklet", "ext" };
    sim_note("C03 targets=%d: ", n);
    /* joiners: joiner k handles targets assigned to it; joiner 0 is the primary itself */
    int njoiners = 1;
    int jkind[MAXT + 1], jpool[MAXT + 1];
    jkind[0] = J_PRIMARY;
    jpool[0] = 0;
    for (int i = 0; i < n; i++) {
        target *t = &S.T[i];
        t->id = i;
        t->is_task = plan_n(3) == 0;
        t->behaviour = (int)plan_n(B_N);
        if (t->is_task)
            t->behaviour = B_RETURN; /* a tasklet cannot exit, block or reach a scheduling point */
        t->pool = (int)plan_n((uint32_t)rt->npools);
        t->yields = (int)plan_n(4);
        t->when = (int)plan_n(3);
        t->use_join_first = plan_bool();
        if (t->behaviour == B_BLOCKS_FIRST && !t->is_task)
            ABT_OK(ABT_eventual_create(0, &t->ev));
        /* choose a joiner: an existing one or a new one */
        int j;
        if (njoiners > 1 && plan_n(3) == 0)
            j = (int)plan_n((uint32_t)njoiners);
        else if (plan_n(4) == 0)
            j = 0;
        else {
            j = njoiners++;
            jkind[j] = 1 + (int)plan_n(3);
            jpool[j] = (int)plan_n((uint32_t)rt->npools);
        }
        /* a tasklet joiner blocks its stream: the target (and whatever it waits for) must
         * be served by other streams only */
        if (jkind[j] == J_TASKLET) {
            /* at most one tasklet joiner per run: two of them can block two streams on each
             * other's targets (the program's deadlock, not the runtime's) */
            int others = 0;
            for (int q = 1; q < njoiners; q++)
                if (q != j && jkind[q] == J_TASKLET)
                    others++;
            int ok = !others && rt->pool_es[jpool[j]] >= 0 && rt->pool_es[t->pool] >= 0 && rt->pool_es[t->pool] != rt->pool_es[jpool[j]] && rt->pool_es[jpool[j]] != 0;
            if (!ok || t->behaviour == B_BLOCKS_FIRST || t->behaviour == B_CANCELLED || t->when == W_AFTER) {
                if (JN[j].ntargets == 0)
                    jkind[j] = J_ULT;
                else
                    j = 0;
            }
        }
        /* a ULT joining a tasklet is an unbounded yield loop; keep the joiner where it cannot
         * starve the tasklet's pool (same pool, or the primary whose stream is not alone) */
        if (jkind[j] == J_ULT && t->is_task)
            jpool[j] = JN[j].ntargets == 0 ? t->pool : jpool[j];
        if (jkind[j] == J_ULT && t->is_task && jpool[j] != t->pool)
            j = 0;
        t->jkind = jkind[j];
        t->group = j;
        t->revive = t->use_join_first && jkind[j] != J_TASKLET && plan_n(3) == 0;
        JN[j].targets[JN[j].ntargets++] = i;
        sim_note("[%s%d %s@%d y%d joined-by %s#%d %s%s] ", t->is_task ? "T" : "U", i, bn[t->behaviour], t->pool, t->yields, jn[jkind[j]], j,
                 t->when == W_BEFORE ? "early" : t->when == W_DURING ? "mid" : "late", t->revive ? " join+revive+join+free" : t->use_join_first ? " join+free" : " free");
    }
    for (int j = 0; j < njoiners; j++) {
        /* the _many variants: all targets of that joiner must be ULTs without special timing */
        int ok = JN[j].ntargets >= 2;
        for (int k = 0; k < JN[j].ntargets; k++)
            if (S.T[JN[j].targets[k]].is_task)
                ok = 0;
        JN[j].many = ok ? (int)plan_n(3) : 0; /* 0: one by one, 1: join_many+free_many, 2: free_many */
        if (JN[j].many)
            sim_note("many#%d=%d ", j, JN[j].many);
    }
    for (int j = 0; j < njoiners; j++)
        JN[j].kind = jkind[j];
    /* create targets */
    ABT_pool park;
    ABT_OK(ABT_pool_create_basic(ABT_POOL_FIFO, ABT_POOL_ACCESS_MPMC, ABT_FALSE, &park));
    for (int i = 0; i < n; i++) {
        target *t = &S.T[i];
        if (t->behaviour == B_EXIT_TO && !t->is_task) {
            /* READY, never started, in no pool; associated with the target's pool */
            ABT_thread x;
            ABT_OK(ABT_thread_create(park, helper_fn, t, ABT_THREAD_ATTR_NULL, &t->helper));
            ABT_OK(ABT_pool_pop_thread(park, &x));
            ABT_OK(ABT_thread_set_associated_pool(t->helper, rt->pools[t->pool]));
        }
        if (t->is_task)
            ABT_OK(ABT_task_create(rt->pools[t->pool], target_fn, t, &t->th));
        else
            ABT_OK(ABT_thread_create(rt->pools[t->pool], target_fn, t, ABT_THREAD_ATTR_NULL, &t->th));
    }
    /* start joiners */
    ABT_thread jth[MAXT + 1];
    int jtid[MAXT + 1];
    for (int j = 1; j < njoiners; j++) {
        jth[j] = ABT_THREAD_NULL;
        jtid[j] = -1;
        if (jkind[j] == J_ULT)
            ABT_OK(ABT_thread_create(rt->pools[jpool[j]], joiner_fn, &JN[j], ABT_THREAD_ATTR_NULL, &jth[j]));
        else if (jkind[j] == J_TASKLET)
            ABT_OK(ABT_task_create(rt->pools[jpool[j]], joiner_fn, &JN[j], &jth[j]));
        else
            jtid[j] = sim_thread_create(joiner_fn, &JN[j]);
    }
    /* helpers: cancel / unblock at some point */
    for (int round = 0; round < 3; round++) {
        for (int i = 0; i < n; i++) {
            target *t = &S.T[i];
            if (round == (t->yields % 3)) {
                if (t->behaviour == B_CANCELLED && !t->joined) {
                    /* the handle is still valid: the joiner frees it only after termination, and
                     * termination needs the cancel or the stop flag set below */
                    ABT_OK(ABT_thread_cancel(t->th));
                    t->stop = 1; /* in case the unit already passed its last scheduling point */
                }
                if (t->behaviour == B_BLOCKS_FIRST) {
                    if (t->is_task)
                        t->stop = 1;
                    else
                        ABT_OK(ABT_eventual_set(t->ev, NULL, 0));
                }
            }
        }
        ABT_OK(ABT_thread_yield());
    }
    /* the primary's own joins */
    joiner_fn(&JN[0]);
    for (int j = 1; j < njoiners; j++) {
        if (jkind[j] == J_EXT) {
            while (!JN[j].done)
                ABT_OK(ABT_thread_yield());
            sim_thread_join(jtid[j]);
        } else
            ABT_OK(ABT_thread_free(&jth[j]));
        SIM_CHECK(JN[j].done, "join:returned-before-termination", "joiner %d was joined but did not finish", j);
        sim_progress();
    }
    for (int i = 0; i < n; i++) {
        target *t = &S.T[i];
        SIM_CHECK(t->joined, "join:missing", "target %d was never joined", i);
        SIM_CHECK(t->ticks == t->ticks_at_join, "join:target-ran-after-join", "target %d executed %d more iterations after its join returned", i, t->ticks - t->ticks_at_join);
        if (t->behaviour == B_BLOCKS_FIRST && !t->is_task)
            ABT_OK(ABT_eventual_free(&t->ev));
        if (t->behaviour == B_EXIT_TO && !t->is_task) {
            ABT_OK(ABT_thread_free(&t->helper));
            SIM_CHECK(t->helper_ran == 1, "once:not-exactly-once", "the ULT that target %d exited to ran %d times", i, t->helper_ran);
        }
    }
    ABT_OK(ABT_pool_free(&park));
    wl_rt_stop(rt);
}
SIM_WORKLOAD("C03", "join-matrix", run_c03, 10)
