/* C10: reader-writer lock: writers exclusive, readers shared, nobody stuck */
#include "wl_common.h"

#define MAXA 8
enum { L_RD = 0, L_WR, L_N };

static struct {
    wl_rt rt;
    ABT_rwlock rw;
    int readers, writers; /* harness-side holder model */
    int nA, cs_yield;
    wl_actor A[MAXA];
    long shared_reads, max_readers, tasklet_refusals;
    /* forced reader inclusion */
    volatile int r1_in, r2_in;
} S;

static void in_section(wl_actor *a, int wr, int pauses)
{
    if (wr) {
        SIM_CHECK(S.writers == 0 && S.readers == 0, "rwlock:writer-not-exclusive", "actor %d got the write lock while %d writers and %d readers hold the lock", a->id,
                  S.writers, S.readers);
        S.writers++;
    } else {
        SIM_CHECK(S.writers == 0, "rwlock:reader-with-writer", "actor %d got a read lock while a writer holds the lock", a->id);
        S.readers++;
        if (S.readers > 1)
            S.shared_reads++;
        if (S.readers > S.max_readers)
            S.max_readers = S.readers;
    }
    for (int i = 0; i < pauses; i++) {
        wl_actor_pause(a, S.cs_yield);
        if (wr)
            SIM_CHECK(S.writers == 1 && S.readers == 0, "rwlock:writer-not-exclusive", "lock state changed under writer %d: writers=%d readers=%d", a->id, S.writers,
                      S.readers);
        else
            SIM_CHECK(S.writers == 0, "rwlock:reader-with-writer", "a writer entered while reader %d holds the lock", a->id);
    }
    if (wr)
        S.writers--;
    else
        S.readers--;
}

static void body(wl_actor *a)
{
    for (int i = 0; i < a->nops; i++) {
        a->cur_op = i;
        int wr = a->ops[i] == L_WR;
        if (wr)
            ABT_OK(ABT_rwlock_wrlock(S.rw));
        else
            ABT_OK(ABT_rwlock_rdlock(S.rw));
        sim_progress();
        in_section(a, wr, a->args[i] & 3);
        ABT_OK(ABT_rwlock_unlock(S.rw));
        sim_progress();
        if (a->args[i] & 4)
            wl_actor_pause(a, 1);
    }
}

/* under the 1.x API a tasklet must not take the lock: both routines return ABT_ERR_RWLOCK, and
 * the refused call must leave the lock as it was (the other actors go on using it) */
static void tasklet_body(wl_actor *a)
{
    for (int i = 0; i < a->nops; i++) {
        a->cur_op = i;
        int r = a->ops[i] == L_WR ? ABT_rwlock_wrlock(S.rw) : ABT_rwlock_rdlock(S.rw);
        SIM_CHECK(r == ABT_ERR_RWLOCK, "rwlock:tasklet", "ABT_rwlock_%s called by a tasklet returned %d, documented: ABT_ERR_RWLOCK (%d)", a->ops[i] == L_WR ? "wrlock" : "rdlock", r,
                  ABT_ERR_RWLOCK);
        S.tasklet_refusals++;
        sim_progress();
    }
}

static void diag(char *buf, int sz)
{
    int k = snprintf(buf, (size_t)sz, "readers=%d writers=%d r1_in=%d r2_in=%d ", S.readers, S.writers, S.r1_in, S.r2_in);
    wl_actors_diag(S.A, S.nA, buf + k, sz - k);
}

static void run_c10(void)
{
    memset(&S, 0, sizeof S);
    sim_set_diag_cb(diag);
    wl_rt *rt = &S.rt;
    wl_rt_start(rt, WL_RT_NO_TOPO2);
    ABT_OK(ABT_rwlock_create(&S.rw));
    int n = plan_range(2, sim_limit("actors", 6));
    S.nA = n;
    S.cs_yield = plan_bool();
    int maxops = sim_limit("ops", 5);
    sim_note("C10 rwlock cs_yield=%d: ", S.cs_yield);
    for (int i = 0; i < n; i++) {
        wl_actor *a = &S.A[i];
        a->id = i;
        a->kind = plan_n(3) == 0 ? AK_EXT : AK_ULT;
        if (i >= 2 && plan_n(5) == 0)
            a->kind = AK_TASKLET;
        a->pool = (int)plan_n((uint32_t)rt->npools);
        a->body = a->kind == AK_TASKLET ? tasklet_body : body;
        a->nops = plan_range(1, maxops);
        sim_note("[%s@%d", wl_actor_kind_names[a->kind], a->pool);
        for (int j = 0; j < a->nops; j++) {
            a->ops[j] = plan_n(3) == 0 ? L_WR : L_RD;
            a->args[j] = (int)plan_n(8);
            sim_note(" %s", a->ops[j] == L_WR ? "wr" : "rd");
        }
        sim_note("] ");
    }
    wl_actors_spawn(rt, S.A, n);
    wl_actors_join(rt, S.A, n);
    SIM_CHECK(S.readers == 0 && S.writers == 0, "rwlock:model", "holder model not idle at the end");
    sim_count("c10.reads_sharing_the_lock", (uint64_t)S.shared_reads);
    sim_count("c10.tasklet_calls_refused", (uint64_t)S.tasklet_refusals);
    ABT_OK(ABT_rwlock_free(&S.rw));
    wl_rt_stop(rt);
}
SIM_WORKLOAD("C10", "rwlock-mix", run_c10, 10)

/* forced reader inclusion: R1 keeps its read lock until R2 has acquired one; if readers
 * excluded each other the run would hang.  A writer queues up in between. */
static void r1_body(wl_actor *a)
{
    ABT_OK(ABT_rwlock_rdlock(S.rw));
    S.readers++;
    S.r1_in = 1;
    sim_progress();
    while (!S.r2_in)
        wl_actor_pause(a, 1);
    /* R2 acquired its read lock while R1 was holding one (R2 may already have left again) */
    SIM_CHECK(S.writers == 0, "rwlock:reader-with-writer", "a writer is inside while reader R1 holds the lock");
    S.readers--;
    ABT_OK(ABT_rwlock_unlock(S.rw));
    sim_progress();
}
static void r2_body(wl_actor *a)
{
    while (!S.r1_in)
        wl_actor_pause(a, 1);
    ABT_OK(ABT_rwlock_rdlock(S.rw)); /* must not block: only a reader holds the lock */
    SIM_CHECK(S.writers == 0, "rwlock:reader-with-writer", "second reader entered with a writer inside");
    S.readers++;
    S.shared_reads++;
    S.r2_in = 1;
    sim_progress();
    for (int i = 0; i < (a->args[0] & 3); i++)
        wl_actor_pause(a, 1);
    S.readers--;
    ABT_OK(ABT_rwlock_unlock(S.rw));
    sim_progress();
}
static void w_body(wl_actor *a)
{
    for (int i = 0; i < (a->args[0] & 7); i++)
        wl_actor_pause(a, 1);
    ABT_OK(ABT_rwlock_wrlock(S.rw));
    SIM_CHECK(S.readers == 0 && S.writers == 0, "rwlock:writer-not-exclusive", "writer entered with readers=%d writers=%d", S.readers, S.writers);
    S.writers++;
    wl_actor_pause(a, 0);
    S.writers--;
    ABT_OK(ABT_rwlock_unlock(S.rw));
    sim_progress();
}

static void run_c10_incl(void)
{
    memset(&S, 0, sizeof S);
    sim_set_diag_cb(diag);
    wl_rt *rt = &S.rt;
    wl_rt_start(rt, WL_RT_NO_TOPO2);
    ABT_OK(ABT_rwlock_create(&S.rw));
    int nw = (int)plan_n(3);
    int n = 2 + nw;
    S.nA = n;
    sim_note("C10 reader-inclusion writers=%d: ", nw);
    for (int i = 0; i < n; i++) {
        wl_actor *a = &S.A[i];
        a->id = i;
        a->kind = plan_n(3) == 0 ? AK_EXT : AK_ULT;
        a->pool = (int)plan_n((uint32_t)rt->npools);
        a->body = i == 0 ? r1_body : i == 1 ? r2_body : w_body;
        a->args[0] = (int)plan_n(8);
        sim_note("%s@%d ", wl_actor_kind_names[a->kind], a->pool);
    }
    wl_actors_spawn(rt, S.A, n);
    wl_actors_join(rt, S.A, n);
    sim_count("c10.reads_sharing_the_lock", (uint64_t)S.shared_reads);
    ABT_OK(ABT_rwlock_free(&S.rw));
    wl_rt_stop(rt);
}
SIM_WORKLOAD("C10", "reader-inclusion", run_c10_incl, 4)

/* ---- scenario "many-read-holds": one reader takes H read holds (the lock counts them; nothing
 * says how many there may be), a writer then asks for the lock and must stay out until the last
 * hold is returned, and afterwards the lock is free.  H is mostly small; now and then it sits
 * on a power of two (2^8, 2^16) or just around it. ---- */
static struct {
    long holds, target;
    volatile int all_taken, writer_in, writer_done;
} MH;
static void mh_reader(wl_actor *a)
{
    for (long i = 0; i < MH.target; i++) {
        ABT_OK(ABT_rwlock_rdlock(S.rw));
        MH.holds++;
        if ((i & 255) == 0)
            sim_progress();
    }
    MH.all_taken = 1;
    sim_progress();
    /* let the writer arrive (it may also arrive later: both orders are legal) */
    for (int i = 0; i < (a->args[0] & 7); i++)
        wl_actor_pause(a, 1);
    while (MH.holds > 0) {
        SIM_CHECK(!MH.writer_in, "rwlock:writer-not-exclusive", "the writer is inside although the reader still has %ld of its %ld read holds", MH.holds, MH.target);
        MH.holds--; /* (before the call: the writer may enter as soon as the last unlock takes effect) */
        ABT_OK(ABT_rwlock_unlock(S.rw));
        if ((MH.holds & 255) == 0)
            sim_progress();
    }
    sim_progress();
}
static void mh_writer(wl_actor *a)
{
    while (!MH.all_taken)
        wl_actor_pause(a, 1);
    ABT_OK(ABT_rwlock_wrlock(S.rw));
    SIM_CHECK(MH.holds == 0, "rwlock:writer-not-exclusive", "the writer got the lock while the reader has %ld of its %ld read holds", MH.holds, MH.target);
    MH.writer_in = 1;
    sim_progress();
    wl_actor_pause(a, 1);
    SIM_CHECK(MH.holds == 0, "rwlock:writer-not-exclusive", "lock state changed under the writer");
    MH.writer_in = 0;
    ABT_OK(ABT_rwlock_unlock(S.rw));
    MH.writer_done = 1;
    sim_progress();
}
static void run_c10_holds(void)
{
    memset(&S, 0, sizeof S);
    memset(&MH, 0, sizeof MH);
    sim_set_diag_cb(diag);
    wl_rt *rt = &S.rt;
    wl_rt_start(rt, WL_RT_NO_TOPO2);
    ABT_OK(ABT_rwlock_create(&S.rw));
    static const long edges[] = { 255, 256, 257, 65535, 65536, 65537, 70000 };
    /* (a deep run costs a thousand ordinary ones: rare, rarer still where every plain access is a
     * scheduling point) */
    int deep = plan_n(sim_tier() ? 150 : !strcmp(sim_variant(), "VP") ? 6000 : 700) == 0;
    MH.target = deep ? edges[plan_n(7)] : plan_range(1, 40);
    S.nA = 2;
    sim_note("C10 many-read-holds H=%ld: ", MH.target);
    for (int i = 0; i < 2; i++) {
        wl_actor *a = &S.A[i];
        a->id = i;
        a->kind = plan_n(3) == 0 ? AK_EXT : AK_ULT;
        a->pool = (int)plan_n((uint32_t)rt->npools);
        a->body = i == 0 ? mh_reader : mh_writer;
        a->args[0] = (int)plan_n(8);
        sim_note("%s@%d ", wl_actor_kind_names[a->kind], a->pool);
    }
    wl_actors_spawn(rt, S.A, 2);
    wl_actors_join(rt, S.A, 2);
    SIM_CHECK(MH.writer_done, "rwlock:model", "the writer did not finish");
    /* the lock is free again: a write hold and a read hold can be taken at once */
    ABT_OK(ABT_rwlock_wrlock(S.rw));
    ABT_OK(ABT_rwlock_unlock(S.rw));
    ABT_OK(ABT_rwlock_rdlock(S.rw));
    ABT_OK(ABT_rwlock_unlock(S.rw));
    if (MH.target >= 65536)
        sim_count("c10.runs_with_2^16_read_holds", 1);
    sim_count("c10.read_holds_of_one_caller", (uint64_t)MH.target);
    ABT_OK(ABT_rwlock_free(&S.rw));
    wl_rt_stop(rt);
}
SIM_WORKLOAD("C10", "many-read-holds", run_c10_holds, 1)
