/* C04: ABT_mutex gives mutual exclusion, correct recursion, and never loses a wakeup */
#include "wl_common.h"

enum { OP_LOCK = 0, OP_LOCK_LOW, OP_LOCK_HIGH, OP_SPINLOCK, OP_TRYLOCK, OP_N };
static const char *opn[] = { "lock", "lock_low", "lock_high", "spinlock", "trylock" };

static struct {
    ABT_mutex m;
    ABT_mutex_memory mem WL_ALIGNED_MEMORY;
    int recursive, cs_yield;
    int holder, depth;       /* harness-side holder model */
    long counter, expected;  /* incremented inside critical sections */
    int open_intervals;      /* callers between lock/trylock-invoke and unlock-return */
    unsigned long opens;     /* total number of intervals ever opened */
    long acquisitions, try_fail, try_ok, contended;
} S;

static void enter_cs(wl_actor *a)
{
    if (S.holder == a->id) {
        SIM_CHECK(S.recursive, "mutex:double-acquire", "actor %d acquired a non-recursive mutex it already holds", a->id);
        S.depth++;
    } else {
        SIM_CHECK(S.holder == -1, "mutex:exclusion", "actor %d acquired the mutex while actor %d holds it (depth %d)", a->id, S.holder, S.depth);
        S.holder = a->id;
        S.depth = 1;
    }
    S.acquisitions++;
}

static void in_cs(wl_actor *a, int pauses)
{
    long c = S.counter;
    for (int i = 0; i < pauses; i++) {
        wl_actor_pause(a, S.cs_yield);
        SIM_CHECK(S.holder == a->id, "mutex:exclusion", "holder changed to %d while actor %d is inside its critical section", S.holder, a->id);
    }
    SIM_CHECK(S.counter == c, "mutex:exclusion", "protected counter changed under actor %d", a->id);
    S.counter = c + 1;
}

static void leave_cs(wl_actor *a)
{
    SIM_CHECK(S.holder == a->id, "mutex:exclusion", "actor %d leaves a critical section but holder is %d", a->id, S.holder);
    if (--S.depth == 0)
        S.holder = -1;
}

static void do_unlock(wl_actor *a, int variant)
{
    leave_cs(a);
    switch (variant % 3) {
        case 0:
            ABT_OK(ABT_mutex_unlock(S.m));
            break;
        case 1:
            ABT_OK(ABT_mutex_unlock_se(S.m));
            break;
        default:
            ABT_OK(ABT_mutex_unlock_de(S.m));
            break;
    }
}

static void body(wl_actor *a)
{
    for (int i = 0; i < a->nops; i++) {
        int op = a->ops[i], arg = a->args[i];
        a->cur_op = i;
        int nest = S.recursive ? 1 + (arg >> 4) % 3 : 1;
        int pauses = arg & 3;
        int got = 0;
        unsigned long opens0 = S.opens;
        int open0 = S.open_intervals;
        S.open_intervals++;
        S.opens++;
        if (S.holder != -1 && S.holder != a->id)
            S.contended++;
        switch (op) {
            case OP_LOCK:
                ABT_OK(ABT_mutex_lock(S.m));
                got = 1;
                break;
            case OP_LOCK_LOW:
                ABT_OK(ABT_mutex_lock_low(S.m));
                got = 1;
                break;
            case OP_LOCK_HIGH:
                ABT_OK(ABT_mutex_lock_high(S.m));
                got = 1;
                break;
            case OP_SPINLOCK:
                ABT_OK(ABT_mutex_spinlock(S.m));
                got = 1;
                break;
            case OP_TRYLOCK: {
                int r = ABT_mutex_trylock(S.m);
                if (r == ABT_SUCCESS) {
                    got = 1;
                    S.try_ok++;
                } else {
                    SIM_CHECK(r == ABT_ERR_MUTEX_LOCKED, "api-error", "ABT_mutex_trylock returned %d", r);
                    /* a failed trylock must overlap somebody's lock..unlock interval */
                    SIM_CHECK(open0 > 0 || S.opens != opens0 + 1, "mutex:trylock-failed-on-free",
                              "ABT_mutex_trylock by actor %d failed although no caller was between lock-invoke and unlock-return during the call", a->id);
                    S.try_fail++;
                }
                break;
            }
        }
        sim_progress();
        if (got) {
            enter_cs(a);
            in_cs(a, pauses);
            for (int k = 1; k < nest; k++) {
                /* recursive re-acquisition by the owner must succeed at once */
                switch ((arg >> 6) % 5) {
                    case 0: {
                        int r = ABT_mutex_trylock(S.m);
                        SIM_CHECK(r == ABT_SUCCESS, "mutex:recursion", "owner's nested trylock returned %d", r);
                        break;
                    }
                    case 1:
                        ABT_OK(ABT_mutex_lock(S.m));
                        break;
                    case 2:
                        ABT_OK(ABT_mutex_spinlock(S.m));
                        break;
                    case 3:
                        ABT_OK(ABT_mutex_lock_low(S.m));
                        break;
                    default:
                        ABT_OK(ABT_mutex_lock_high(S.m));
                        break;
                }
                enter_cs(a);
                in_cs(a, 0);
            }
            for (int k = 1; k < nest; k++) {
                do_unlock(a, 0);
                SIM_CHECK(S.holder == a->id, "mutex:recursion", "recursive mutex released before the outermost unlock");
                if (pauses)
                    wl_actor_pause(a, S.cs_yield);
            }
            do_unlock(a, arg >> 2);
        }
        S.open_intervals--;
        sim_progress();
        if ((arg >> 9) & 1)
            wl_actor_pause(a, 1);
    }
}

static wl_actor A[8];
static int nA;
static void diag(char *buf, int sz)
{
    int k = snprintf(buf, (size_t)sz, "holder=%d depth=%d open=%d ", S.holder, S.depth, S.open_intervals);
    wl_actors_diag(A, nA, buf + k, sz - k);
}

static void run_c04(void)
{
    wl_rt rt;
    memset(&S, 0, sizeof S);
    S.holder = -1;
    wl_rt_start(&rt, 0);
    int n = plan_range(2, sim_limit("actors", 6));
    nA = n;
    sim_set_diag_cb(diag);
    int maxops = sim_limit("ops", 6);
    int kind = (int)plan_n(4); /* 0 dynamic, 1 dynamic recursive, 2 static, 3 static recursive */
    S.recursive = kind & 1;
    S.cs_yield = plan_bool();
    if (kind < 2) {
        if (S.recursive) {
            ABT_mutex_attr attr;
            ABT_OK(ABT_mutex_attr_create(&attr));
            ABT_OK(ABT_mutex_attr_set_recursive(attr, ABT_TRUE));
            ABT_OK(ABT_mutex_create_with_attr(attr, &S.m));
            ABT_OK(ABT_mutex_attr_free(&attr));
        } else if (plan_bool()) {
            /* an attribute that says "not recursive" explicitly (after having said the opposite) */
            ABT_mutex_attr attr;
            ABT_OK(ABT_mutex_attr_create(&attr));
            ABT_OK(ABT_mutex_attr_set_recursive(attr, ABT_TRUE));
            ABT_OK(ABT_mutex_attr_set_recursive(attr, ABT_FALSE));
            ABT_OK(ABT_mutex_create_with_attr(attr, &S.m));
            ABT_OK(ABT_mutex_attr_free(&attr));
        } else
            ABT_OK(ABT_mutex_create(&S.m));
    } else {
        ABT_mutex_memory init = ABT_MUTEX_INITIALIZER, rinit = ABT_RECURSIVE_MUTEX_INITIALIZER;
        S.mem = S.recursive ? rinit : init;
        S.m = ABT_MUTEX_MEMORY_GET_HANDLE(&S.mem);
    }
    {
        /* what the mutex says about itself */
        ABT_mutex_attr ga;
        ABT_bool rec = 2, eq = ABT_FALSE;
        ABT_OK(ABT_mutex_get_attr(S.m, &ga));
        ABT_OK(ABT_mutex_attr_get_recursive(ga, &rec));
        SIM_CHECK((rec == ABT_TRUE) == (S.recursive != 0), "mutex:attr", "a mutex created %s reports recursive=%d", S.recursive ? "recursive" : "non-recursive", (int)rec);
        ABT_OK(ABT_mutex_attr_free(&ga));
        ABT_OK(ABT_mutex_equal(S.m, S.m, &eq));
        SIM_CHECK(eq == ABT_TRUE, "mutex:equal", "ABT_mutex_equal(m, m) is false");
    }
    sim_note("C04 mutex kind=%d cs_yield=%d actors=%d: ", kind, S.cs_yield, n);
    memset(A, 0, sizeof A);
    for (int i = 0; i < n; i++) {
        A[i].id = i;
        int k = (int)plan_n(10);
        A[i].kind = k < 5 ? AK_ULT : k < 8 ? AK_EXT : AK_TASKLET;
        A[i].pool = (int)plan_n((uint32_t)rt.npools);
        A[i].body = body;
        A[i].nops = plan_range(1, maxops);
        sim_note("[%s@%d", wl_actor_kind_names[A[i].kind], A[i].pool);
        for (int j = 0; j < A[i].nops; j++) {
            int op = (int)plan_n(OP_N);
            /* when critical sections may yield, the holder can sit in a pool: a tasklet must
             * not block its stream on it, and nobody occupying a stream may spin for it */
            if (A[i].kind == AK_TASKLET && S.cs_yield)
                op = OP_TRYLOCK;
            if (A[i].kind == AK_ULT && S.cs_yield && op == OP_SPINLOCK)
                op = OP_LOCK;
            A[i].ops[j] = op;
            A[i].args[j] = (int)plan_n(1024);
            if (op != OP_TRYLOCK)
                S.expected += S.recursive ? 1 + (A[i].args[j] >> 4) % 3 : 1;
            sim_note(" %s", opn[op]);
        }
        sim_note("] ");
    }
    wl_actors_spawn(&rt, A, n);
    wl_actors_join(&rt, A, n);
    SIM_CHECK(S.holder == -1 && S.open_intervals == 0, "mutex:exclusion", "holder model not idle at the end");
    long want = S.expected;
    /* successful trylocks add their nesting too: recompute from acquisitions */
    SIM_CHECK(S.counter == S.acquisitions, "mutex:exclusion", "protected counter %ld != number of acquisitions %ld", S.counter, S.acquisitions);
    SIM_CHECK(S.acquisitions >= want, "mutex:lost-acquisition", "only %ld of at least %ld acquisitions happened", S.acquisitions, want);
    sim_count("c04.trylock_fail", (uint64_t)S.try_fail);
    sim_count("c04.trylock_ok", (uint64_t)S.try_ok);
    sim_count("c04.contended_invocations", (uint64_t)S.contended);
    if (kind < 2)
        ABT_OK(ABT_mutex_free(&S.m));
    wl_rt_stop(&rt);
}
SIM_WORKLOAD("C04", "mutex-mix", run_c04, 10)

/* ---- scenario "deep-nesting": the owner of a recursive mutex locks it D times (the mutex counts
 * the levels; nothing says how many there may be) and unlocks it D times; until the last unlock
 * nobody else gets it (a foreign trylock fails, a foreign lock stays blocked), afterwards it is
 * free.  D is mostly small; now and then it sits on 2^8 / 2^16 or just around it. ---- */
static struct {
    ABT_mutex m;
    ABT_mutex_memory mem;
    long depth, target;
    volatile int all_taken, other_in, other_done;
    wl_actor A[2];
} DN;
static void dn_owner(wl_actor *a)
{
    for (long i = 0; i < DN.target; i++) {
        if (i & 1)
            ABT_OK(ABT_mutex_lock(DN.m));
        else
            SIM_CHECK(ABT_mutex_trylock(DN.m) == ABT_SUCCESS, "mutex:recursion", "level %ld: trylock by the owner of a recursive mutex (or of a free one) failed", i);
        DN.depth++;
        if ((i & 255) == 0)
            sim_progress();
    }
    DN.all_taken = 1;
    sim_progress();
    for (int i = 0; i < (a->args[0] & 7); i++)
        wl_actor_pause(a, 1);
    while (DN.depth > 0) {
        SIM_CHECK(!DN.other_in, "mutex:exclusion", "another caller holds the recursive mutex although its owner is still %ld of %ld levels deep", DN.depth, DN.target);
        DN.depth--; /* (before the call: the other caller may get in as soon as the last unlock takes effect) */
        ABT_OK(ABT_mutex_unlock(DN.m));
        if ((DN.depth & 255) == 0)
            sim_progress();
    }
    sim_progress();
}
static void dn_other(wl_actor *a)
{
    while (!DN.all_taken)
        wl_actor_pause(a, 1);
    if (a->args[0] & 1) {
        /* polls with trylock */
        for (;;) {
            int rc = ABT_mutex_trylock(DN.m);
            if (rc == ABT_SUCCESS)
                break;
            SIM_CHECK(rc == ABT_ERR_MUTEX_LOCKED, "mutex:trylock", "ABT_mutex_trylock returned %d", rc);
            wl_actor_pause(a, 1);
        }
    } else
        ABT_OK(ABT_mutex_lock(DN.m));
    SIM_CHECK(DN.depth == 0, "mutex:exclusion", "another caller got the recursive mutex while its owner is %ld of %ld levels deep", DN.depth, DN.target);
    DN.other_in = 1;
    sim_progress();
    wl_actor_pause(a, 1);
    DN.other_in = 0;
    ABT_OK(ABT_mutex_unlock(DN.m));
    DN.other_done = 1;
    sim_progress();
}
static void dn_diag(char *buf, int sz)
{
    int k = snprintf(buf, (size_t)sz, "deep-nesting: depth=%ld of %ld other_in=%d ", DN.depth, DN.target, DN.other_in);
    wl_actors_diag(DN.A, 2, buf + k, sz - k);
}
static void run_c04_deep(void)
{
    wl_rt rt;
    memset(&DN, 0, sizeof DN);
    wl_rt_start(&rt, WL_RT_NO_TOPO2);
    sim_set_diag_cb(dn_diag);
    int is_static = plan_bool();
    if (is_static) {
        ABT_mutex_memory rinit = ABT_RECURSIVE_MUTEX_INITIALIZER;
        DN.mem = rinit;
        DN.m = ABT_MUTEX_MEMORY_GET_HANDLE(&DN.mem);
    } else {
        ABT_mutex_attr attr;
        ABT_OK(ABT_mutex_attr_create(&attr));
        ABT_OK(ABT_mutex_attr_set_recursive(attr, ABT_TRUE));
        ABT_OK(ABT_mutex_create_with_attr(attr, &DN.m));
        ABT_OK(ABT_mutex_attr_free(&attr));
    }
    static const long edges[] = { 255, 256, 257, 65535, 65536, 65537, 70000 };
    /* (a deep run costs a thousand ordinary ones: rare, rarer still where every plain access is a
     * scheduling point) */
    int deep = plan_n(sim_tier() ? 150 : !strcmp(sim_variant(), "VP") ? 6000 : 700) == 0;
    DN.target = deep ? edges[plan_n(7)] : plan_range(1, 40);
    sim_note("C04 deep-nesting %s D=%ld: ", is_static ? "static" : "dynamic", DN.target);
    for (int i = 0; i < 2; i++) {
        wl_actor *a = &DN.A[i];
        a->id = i;
        a->kind = plan_n(3) == 0 ? AK_EXT : AK_ULT;
        a->pool = (int)plan_n((uint32_t)rt.npools);
        a->body = i == 0 ? dn_owner : dn_other;
        a->args[0] = (int)plan_n(8);
        sim_note("%s@%d ", wl_actor_kind_names[a->kind], a->pool);
    }
    wl_actors_spawn(&rt, DN.A, 2);
    wl_actors_join(&rt, DN.A, 2);
    SIM_CHECK(DN.other_done, "mutex:model", "the second caller did not finish");
    SIM_CHECK(ABT_mutex_trylock(DN.m) == ABT_SUCCESS, "mutex:trylock", "the mutex is not free after everybody unlocked");
    ABT_OK(ABT_mutex_unlock(DN.m));
    if (DN.target >= 65536)
        sim_count("c04.runs_with_2^16_levels", 1);
    sim_count("c04.nesting_levels_of_one_owner", (uint64_t)DN.target);
    if (!is_static)
        ABT_OK(ABT_mutex_free(&DN.m));
    wl_rt_stop(&rt);
}
SIM_WORKLOAD("C04", "deep-nesting", run_c04_deep, 1)
