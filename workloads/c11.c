/* C11: suspend/resume and directed switches hand control exactly as documented
 * C02: a ULT never runs on two streams at once; its context survives every switch
 *
 * Scenario A (suspend-race): ULTs in pools served by two or more streams suspend themselves;
 * resumers on other streams / external threads poll for BLOCKED and resume at once.
 * Scenario B (chain): 2..6 ULTs hand control to each other with every directed-switch
 * primitive; the harness keeps the documented state of every ULT and checks who runs next.
 * In C02 mode every switch is wrapped in canary_call (callee-saved registers, MXCSR, x87 CW),
 * stack-resident patterns are compared across the switch, ULTs use every stack provenance,
 * and alignment / containment / disjointness of stacks are checked.
 * The context-ownership monitor (M-owner, sim/core.c) is active in every run. */
#include "wl_common.h"
#include "whitebox.h"

extern unsigned canary_call(void (*fn)(void *), void *arg, unsigned long seed);

/* ================================================================ scenario A */
#define MAXS 6
typedef struct susp {
    int id, pool, rounds;
    ABT_thread th;
    volatile int epoch_susp, epoch_res, done;
} susp;
static struct {
    wl_rt rt;
    susp U[MAXS];
    int n;
    int c02;
    long resumes, stale_claims;
} A;

static void do_suspend(void *arg)
{
    (void)arg;
    ABT_OK(ABT_self_suspend());
}

static void susp_fn(void *arg)
{
    susp *u = (susp *)arg;
    for (int r = 0; r < u->rounds; r++) {
        volatile uint64_t pat[16];
        for (int i = 0; i < 16; i++)
            pat[i] = 0xa5a50000ULL + (uint64_t)(u->id * 1000 + r * 16 + i);
        u->epoch_susp++;
        if (A.c02) {
            unsigned m = canary_call(do_suspend, NULL, 0x9000 + (unsigned long)u->id);
            SIM_CHECK(m == 0, "ctx:register-clobbered", "ULT %d: callee-saved registers / FP control state changed across ABT_self_suspend (mask %#x)", u->id, m);
        } else
            ABT_OK(ABT_self_suspend());
        SIM_CHECK(u->epoch_res == u->epoch_susp, "suspend:ran-without-resume", "ULT %d runs after its suspension #%d although only %d resumes were issued", u->id,
                  u->epoch_susp, u->epoch_res);
        for (int i = 0; i < 16; i++)
            SIM_CHECK(pat[i] == 0xa5a50000ULL + (uint64_t)(u->id * 1000 + r * 16 + i), "ctx:stack-corrupted", "ULT %d: stack pattern changed across suspend/resume", u->id);
        sim_progress();
        if (r & 1)
            ABT_OK(ABT_thread_yield());
    }
    u->done = 1;
    sim_progress();
}

static void check_blocked_counters(const char *when)
{
    for (int i = 0; i < A.rt.npools; i++) {
        int nb = wb_pool_num_blocked(A.rt.pools[i]);
        SIM_CHECK(nb >= 0, "pool:num-blocked-negative", "num_blocked of pool %d is %d %s", i, nb, when);
    }
}

static void resumer_loop(int is_ult)
{
    int rem = 1;
    while (rem) {
        rem = 0;
        for (int i = 0; i < A.n; i++) {
            susp *u = &A.U[i];
            if (u->done)
                continue;
            rem = 1;
            if (u->epoch_res < u->epoch_susp) {
                ABT_thread_state st;
                ABT_OK(ABT_thread_get_state(u->th, &st));
                if (st == ABT_THREAD_STATE_BLOCKED && u->epoch_res < u->epoch_susp) {
                    /* claim it (no scheduling point between the test above and this store) */
                    u->epoch_res++;
                    /* The state was sampled before the last scheduling point inside
                     * ABT_thread_get_state: meanwhile another resumer may have resumed that
                     * suspension and the unit may be on its way into the next one (counted, but
                     * not BLOCKED yet).  Resuming a unit that is not blocked is refused with
                     * ABT_ERR_THREAD: give the claim back and look again later. */
                    int rc = ABT_thread_resume(u->th);
                    if (rc == ABT_ERR_THREAD) {
                        u->epoch_res--;
                        A.stale_claims++;
                    } else {
                        SIM_CHECK(rc == ABT_SUCCESS, "api-error", "ABT_thread_resume returned %d", rc);
                        A.resumes++;
                    }
                    sim_progress();
                }
            }
        }
        check_blocked_counters("while units suspend and resume");
        if (is_ult)
            ABT_OK(ABT_thread_yield());
        else
            sim_yield();
    }
}
static void resumer_ult(void *arg)
{
    (void)arg;
    resumer_loop(1);
}
static void resumer_ext(void *arg)
{
    (void)arg;
    resumer_loop(0);
}

static void diagA(char *buf, int sz)
{
    int k = 0;
    for (int i = 0; i < A.n && k < sz - 40; i++)
        k += snprintf(buf + k, (size_t)(sz - k), "u%d@%d:susp%d/res%d/done%d ", i, A.U[i].pool, A.U[i].epoch_susp, A.U[i].epoch_res, A.U[i].done);
}

static void run_suspend_race(int c02)
{
    memset(&A, 0, sizeof A);
    A.c02 = c02;
    sim_set_diag_cb(diagA);
    wl_rt *rt = &A.rt;
    wl_rt_start(rt, WL_RT_NEED_SHARED | WL_RT_MIN2ES | WL_RT_NO_TOPO2);
    A.n = plan_range(1, sim_limit("units", 5));
    int nres_ult = plan_range(0, 2), nres_ext = plan_range(0, 2);
    if (nres_ult + nres_ext == 0)
        nres_ext = 1;
    sim_note("%s suspend-race units=%d resumers=%dult+%dext: ", c02 ? "C02" : "C11", A.n, nres_ult, nres_ext);
    for (int i = 0; i < A.n; i++) {
        susp *u = &A.U[i];
        u->id = i;
        u->rounds = plan_range(1, sim_limit("rounds", 4));
        /* shared pools (index 0) most of the time: a pool served only by the stream on which
         * the ULT still runs hides the race */
        u->pool = plan_n(4) ? 0 : (int)plan_n((uint32_t)rt->npools);
        ABT_OK(ABT_thread_create(rt->pools[u->pool], susp_fn, u, ABT_THREAD_ATTR_NULL, &u->th));
        sim_note("u%d@%d*%d ", i, u->pool, u->rounds);
    }
    ABT_thread rth[2];
    int rtid[2];
    for (int i = 0; i < nres_ult; i++)
        ABT_OK(ABT_thread_create(rt->pools[plan_n((uint32_t)rt->npools)], resumer_ult, NULL, ABT_THREAD_ATTR_NULL, &rth[i]));
    for (int i = 0; i < nres_ext; i++)
        rtid[i] = sim_thread_create(resumer_ext, NULL);
    for (int i = 0; i < A.n; i++) {
        ABT_OK(ABT_thread_free(&A.U[i].th));
        SIM_CHECK(A.U[i].done, "suspend:incomplete", "ULT %d joined before it finished", i);
        sim_progress();
    }
    for (int i = 0; i < nres_ult; i++)
        ABT_OK(ABT_thread_free(&rth[i]));
    for (int i = 0; i < nres_ext; i++)
        sim_thread_join(rtid[i]);
    for (int i = 0; i < A.n; i++)
        SIM_CHECK(A.U[i].epoch_res == A.U[i].epoch_susp && A.U[i].epoch_susp == A.U[i].rounds, "suspend:count", "ULT %d: %d suspensions, %d resumes, %d rounds", i,
                  A.U[i].epoch_susp, A.U[i].epoch_res, A.U[i].rounds);
    for (int i = 0; i < rt->npools; i++) {
        int nb = wb_pool_num_blocked(rt->pools[i]);
        SIM_CHECK(nb == 0, "pool:num-blocked-unbalanced", "num_blocked of pool %d is %d when nothing is blocked", i, nb);
        size_t tot = 0, sz = 0;
        ABT_OK(ABT_pool_get_total_size(rt->pools[i], &tot));
        ABT_OK(ABT_pool_get_size(rt->pools[i], &sz));
        SIM_CHECK(tot == sz, "pool:num-blocked-unbalanced", "pool %d: total_size %zu != size %zu when nothing is blocked", i, tot, sz);
    }
    sim_count(c02 ? "c02.resumes" : "c11.resumes", (uint64_t)A.resumes);
    wl_rt_stop(rt);
}
static void run_c11_suspend(void)
{
    run_suspend_race(0);
}
static void run_c02_suspend(void)
{
    run_suspend_race(1);
}
SIM_WORKLOAD("C11", "suspend-race", run_c11_suspend, 10)
SIM_WORKLOAD("C02", "suspend-race", run_c02_suspend, 6)

/* ================================================================ scenario B */
#define MAXC 7
#define NRANK (WL_MAX_ES + 2)
enum { H_HELD = 0, H_INPOOL, H_RUNNING, H_SUSPENDING, H_DONE, H_REVIVABLE };
enum { P_YIELD_TO = 0, P_THREAD_YIELD_TO, P_SUSPEND_TO, P_RESUME_YIELD_TO, P_RESUME_SUSPEND_TO, P_EXIT_TO, P_RESUME_EXIT_TO, P_CREATE_TO, P_REVIVE_TO, P_YIELD, P_N };
static const char *pn[] = { "yield_to", "thread_yield_to", "suspend_to", "resume_yield_to", "resume_suspend_to", "exit_to", "resume_exit_to", "create_to", "revive_to", "yield" };

typedef struct cult {
    int id, hstate, started, budget, claimed_by;
    ABT_thread th;
    int stack_kind;
    void *user_stack;
    size_t stack_size;
    volatile int done;
    int expect_caller_state; /* what the unit that switched to me must look like: -1 none */
    int expect_rank;
    int from;
    char *lo, *hi; /* observed stack bounds */
    int from_started; /* incarnation of the caller that handed control to me */
    int slices, from_slices; /* how often I got control; the caller's count when it handed over */
    int away;      /* migrated out of the chain pool: not a target for ABT_thread_yield_to */
    int pool_idx;  /* pool the unit is (about to be) associated with */
    int from_migrated;
} cult;

static struct {
    wl_rt rt;
    cult C[MAXC];
    int n, created;
    int pool, priv; /* pool of the chain; served by one stream only? */
    int c02;
    volatile int draining;
    volatile int es_expect[NRANK]; /* per stream: the unit that must get control next, or -1 */
    long switches[P_N];
    long cancels_at_switch;
    long migrations_at_switch;
    long proxies;
    int home_rank; /* rank of the only stream serving the chain pool (private mode) */
    volatile int any_away; /* some unit left the chain pool: units now run on several streams */
    ABT_pool P;
} B;

typedef struct sw_arg {
    int prim;
    ABT_thread tgt;
    int tgt_idx;
    int rc;
    int via_proxy; /* 0: no; otherwise the stack size of the proxy */
} sw_arg;

static void chain_body(void *arg);

/* A short-lived unnamed ULT on a malloc'ed stack of its own does the switch on the caller's
 * behalf: the caller starts it with ABT_thread_create_to (and is thereby left READY in its pool,
 * as after a yield_to); the proxy hands control to the target with the exiting flavour of the
 * primitive.  Its descriptor and stack are one malloc'ed block that is released while the
 * switch is in progress (large ones are unmapped at once, small ones poisoned). */
static void proxy_exit_fn(void *arg)
{
    int rc = ABT_self_exit_to((ABT_thread)arg);
    sim_fail("switch:exit-returned", "ABT_self_exit_to called by an unnamed ULT returned %d", rc);
}
static void proxy_resume_exit_fn(void *arg)
{
    int rc = ABT_self_resume_exit_to((ABT_thread)arg);
    sim_fail("switch:exit-returned", "ABT_self_resume_exit_to called by an unnamed ULT returned %d", rc);
}
static int switch_via_proxy(sw_arg *a, int resume)
{
    ABT_thread_attr attr;
    ABT_OK(ABT_thread_attr_create(&attr));
    ABT_OK(ABT_thread_attr_set_stacksize(attr, (size_t)a->via_proxy));
    B.proxies++;
    /* (the target travels by value: the caller may be running again elsewhere before the proxy starts) */
    int rc = ABT_thread_create_to(B.P, resume ? proxy_resume_exit_fn : proxy_exit_fn, (void *)a->tgt, attr, NULL);
    ABT_OK(ABT_thread_attr_free(&attr));
    return rc;
}

static void do_switch(void *p)
{
    sw_arg *a = (sw_arg *)p;
    if (a->via_proxy && (a->prim == P_YIELD_TO || a->prim == P_RESUME_YIELD_TO)) {
        a->rc = switch_via_proxy(a, a->prim == P_RESUME_YIELD_TO);
        return;
    }
    switch (a->prim) {
        case P_YIELD_TO:
            a->rc = ABT_self_yield_to(a->tgt);
            break;
        case P_THREAD_YIELD_TO:
            a->rc = ABT_thread_yield_to(a->tgt);
            break;
        case P_SUSPEND_TO:
            a->rc = ABT_self_suspend_to(a->tgt);
            break;
        case P_RESUME_YIELD_TO:
            a->rc = ABT_self_resume_yield_to(a->tgt);
            break;
        case P_RESUME_SUSPEND_TO:
            a->rc = ABT_self_resume_suspend_to(a->tgt);
            break;
        case P_EXIT_TO:
            a->rc = ABT_self_exit_to(a->tgt);
            break;
        case P_RESUME_EXIT_TO:
            a->rc = ABT_self_resume_exit_to(a->tgt);
            break;
        case P_CREATE_TO: {
            cult *c = &B.C[a->tgt_idx];
            a->rc = ABT_thread_create_to(B.P, chain_body, c, ABT_THREAD_ATTR_NULL, &c->th);
            break;
        }
        case P_REVIVE_TO: {
            cult *c = &B.C[a->tgt_idx];
            {
                /* only a terminated ULT can be revived; the caller itself is not one (documented
                 * error, nothing happens) */
                ABT_thread self;
                ABT_OK(ABT_self_get_thread(&self));
                int rc0 = ABT_thread_revive_to(B.P, chain_body, c, &self);
                SIM_CHECK(rc0 == ABT_ERR_INV_THREAD, "revive_to:accepted-live-unit", "ABT_thread_revive_to of the running caller returned %d, documented: ABT_ERR_INV_THREAD (%d)", rc0, ABT_ERR_INV_THREAD);
                sim_count("c11.revive_to_of_live_unit_refused", 1);
            }
            a->rc = ABT_thread_revive_to(B.P, chain_body, c, &c->th);
            break;
        }
        case P_YIELD:
            a->rc = ABT_thread_yield();
            break;
    }
}

static int really_in_state(cult *c, ABT_thread_state want)
{
    ABT_thread_state st;
    ABT_OK(ABT_thread_get_state(c->th, &st));
    return st == want;
}
static int really_blocked(cult *c)
{
    return really_in_state(c, ABT_THREAD_STATE_BLOCKED);
}

/* the unit that just received control checks what the documentation promises */
static void on_control(cult *me)
{
    int rank = -1;
    ABT_OK(ABT_self_get_xstream_rank(&rank));
    if (rank >= 0 && rank < NRANK && B.es_expect[rank] >= 0) {
        SIM_CHECK(B.es_expect[rank] == me->id, "switch:wrong-next-unit", "after a directed switch to ULT %d on stream %d, ULT %d got control first", B.es_expect[rank], rank,
                  me->id);
        B.es_expect[rank] = -1;
    }
    me->slices++;
    WL_DBG("[%lu] c%d has control on rank %d, from=%d expect=%d\n", (unsigned long)sim_steps(), me->id, rank, me->from, me->expect_caller_state);
    if (me->from >= 0) {
        SIM_CHECK(me->expect_rank == rank, "switch:wrong-stream", "target ULT %d runs on stream %d, the caller was on stream %d", me->id, rank, me->expect_rank);
        if (me->expect_caller_state >= 0) {
            cult *f = &B.C[me->from];
            ABT_thread_state st;
            ABT_OK(ABT_thread_get_state(f->th, &st));
            if (me->expect_caller_state == (int)ABT_THREAD_STATE_TERMINATED) {
                /* named and not yet freed: still queryable; in a shared pool another stream may
                 * already have revived it (and that incarnation may be exiting again) */
                SIM_CHECK(st == ABT_THREAD_STATE_TERMINATED || ((!B.priv || B.any_away) && (f->hstate != H_REVIVABLE || f->claimed_by >= 0 || f->started != me->from_started)),
                          "switch:caller-state",
                          "caller ULT %d should be TERMINATED after exit_to, state %d", f->id, (int)st);
            } else if (me->expect_caller_state == (int)ABT_THREAD_STATE_BLOCKED) {
                /* in a shared pool somebody may already have resumed it on another stream */
                SIM_CHECK(st == ABT_THREAD_STATE_BLOCKED || !B.priv || B.any_away, "switch:caller-state", "caller ULT %d should be BLOCKED after suspend_to, state %d", f->id, (int)st);
            } else if (B.priv && !me->from_migrated && !f->away && rank == B.home_rank && f->slices == me->from_slices) {
                /* (a caller that was associated with another stream's pool while it ran here may
                 * have been popped there and be running again: it has had control since) */
                /* only this stream serves the pool, and it is busy running me */
                SIM_CHECK(st == ABT_THREAD_STATE_READY, "switch:caller-state", "caller ULT %d should be READY in its pool after yielding to ULT %d, state %d", f->id, me->id,
                          (int)st);
                int in = wl_thread_is_in_pool(f->th);
                SIM_CHECK(in, "switch:caller-state", "caller ULT %d is not in its pool after yielding to ULT %d", f->id, me->id);
            }
        }
        me->from = -1;
        me->expect_caller_state = -1;
    }
}

static void stack_checks(cult *me, void *frame)
{
    SIM_CHECK(((uintptr_t)frame & 15) == 0, "ctx:stack-misaligned", "ULT %d entered with a misaligned stack (frame %p)", me->id, frame);
    char *top = (char *)wb_thread_stacktop(me->th);
    size_t sz = wb_thread_stacksize(me->th);
    if (top && sz) {
        SIM_CHECK((char *)frame < top && (char *)frame >= top - sz, "ctx:stack-out-of-bounds", "ULT %d: frame %p outside its stack [%p,%p)", me->id, frame, (void *)(top - sz),
                  (void *)top);
        me->lo = top - sz;
        me->hi = top;
        for (int i = 0; i < B.created; i++) {
            cult *o = &B.C[i];
            if (o == me || !o->lo || o->hstate == H_DONE || o->hstate == H_REVIVABLE)
                continue;
            SIM_CHECK(me->hi <= o->lo || o->hi <= me->lo, "ctx:stacks-overlap", "stacks of live ULTs %d [%p,%p) and %d [%p,%p) overlap", me->id, (void *)me->lo, (void *)me->hi,
                      o->id, (void *)o->lo, (void *)o->hi);
        }
    }
}

/* choose and claim a target in the wanted harness state; the claim is made without any
 * scheduling point after the choice, the run-time state is verified afterwards */
static int pick_target(int want_state, int me)
{
    int c[MAXC], n = 0;
    for (int i = 0; i < B.created; i++)
        if (i != me && B.C[i].hstate == want_state && B.C[i].claimed_by < 0 && !(want_state == H_INPOOL && B.C[i].away))
            c[n++] = i;
    if (!n)
        return -1;
    int t = c[sim_rand_n(SIM_RS_CHAOS, (uint32_t)n)];
    B.C[t].claimed_by = me;
    int ok = 1;
    if (want_state == H_SUSPENDING)
        ok = really_blocked(&B.C[t]);
    else if (want_state == H_REVIVABLE)
        ok = really_in_state(&B.C[t], ABT_THREAD_STATE_TERMINATED);
    else if (want_state == H_INPOOL)
        ok = wl_thread_is_in_pool(B.C[t].th); /* a unit migrating back may not have been pushed yet */
    if (!ok) {
        B.C[t].claimed_by = -1;
        return -1;
    }
    return t;
}

static void chain_body(void *arg)
{
    cult *me = (cult *)arg;
    me->started++;
    me->hstate = H_RUNNING;
    WL_DBG("[%lu] c%d starts (incarnation %d)\n", (unsigned long)sim_steps(), me->id, me->started);
    if (B.c02)
        stack_checks(me, __builtin_frame_address(0));
    on_control(me);
    while (!B.draining && me->budget > 0) {
        me->budget--;
        /* choose a primitive whose precondition holds right now */
        int prim = (int)sim_rand_n(SIM_RS_CHAOS, P_N);
        int t = -1;
        switch (prim) {
            case P_YIELD_TO:
            case P_SUSPEND_TO:
            case P_EXIT_TO:
                t = pick_target(H_HELD, me->id);
                break;
            case P_THREAD_YIELD_TO: {
                /* the target must be in a pool nobody else pops from: only when I run on the
                 * one stream that serves the chain pool */
                int rk = -1;
                ABT_OK(ABT_self_get_xstream_rank(&rk));
                /* (ABT_thread_yield_to needs the deprecated remove operation, which a pool made with
                 * ABT_pool_user_def does not have) */
                t = (B.priv && rk == B.home_rank && !wl_pool_is_user(B.P)) ? pick_target(H_INPOOL, me->id) : -1;
                break;
            }
            case P_RESUME_YIELD_TO:
            case P_RESUME_SUSPEND_TO:
            case P_RESUME_EXIT_TO:
                t = pick_target(H_SUSPENDING, me->id);
                break;
            case P_CREATE_TO:
                if (B.created < B.n) {
                    t = B.created++;
                    memset(&B.C[t], 0, sizeof B.C[t]);
                    B.C[t].id = t;
                    B.C[t].budget = 2 + (int)sim_rand_n(SIM_RS_CHAOS, 4);
                    B.C[t].claimed_by = me->id;
                    B.C[t].from = -1;
                    B.C[t].expect_caller_state = -1;
                    B.C[t].pool_idx = B.pool;
                    B.C[t].hstate = H_RUNNING;
                }
                break;
            case P_REVIVE_TO:
                t = pick_target(H_REVIVABLE, me->id);
                break;
            case P_YIELD:
                t = -2;
                break;
        }
        if (t == -1)
            continue;
        /* exiting leaves fewer units to hand control to: keep it rare */
        if ((prim == P_EXIT_TO || prim == P_RESUME_EXIT_TO) && sim_rand_n(SIM_RS_CHAOS, 3)) {
            B.C[t].claimed_by = -1;
            continue;
        }
        /* sometimes the caller has a migration request pending when it switches: the request
         * is handled inside the switch (yield-type and suspend-type callbacks alike) */
        int migrating = 0;
        if (prim != P_EXIT_TO && prim != P_RESUME_EXIT_TO && B.rt.npools > 1 && sim_rand_n(SIM_RS_CHAOS, 4) == 0) {
            int np = (int)sim_rand_n(SIM_RS_CHAOS, (uint32_t)B.rt.npools);
            ABT_thread self;
            ABT_OK(ABT_self_get_thread(&self));
            if (np != me->pool_idx && ABT_thread_migrate_to_pool(self, B.rt.pools[np]) == ABT_SUCCESS) {
                migrating = 1;
                me->pool_idx = np;
                me->away = np != B.pool;
                if (me->away)
                    B.any_away = 1;
                B.migrations_at_switch++;
            }
        }
        /* sometimes the caller has a cancellation request pending instead: a yield-type switch
         * then terminates the caller (the suspend-type ones do not look at it) while the target
         * still gets control */
        int cancelling = 0;
        if (!migrating && (prim == P_YIELD_TO || prim == P_RESUME_YIELD_TO || prim == P_THREAD_YIELD_TO || prim == P_YIELD) && sim_rand_n(SIM_RS_CHAOS, 10) == 0) {
            ABT_thread self;
            ABT_OK(ABT_self_get_thread(&self));
            ABT_OK(ABT_thread_cancel(self));
            cancelling = 1;
            B.cancels_at_switch++;
        }
        sw_arg a = { prim, (t >= 0 && prim != P_CREATE_TO) ? B.C[t].th : ABT_THREAD_NULL, t, ABT_SUCCESS, 0 };
        if (!migrating && !cancelling && !me->away && (prim == P_YIELD_TO || prim == P_RESUME_YIELD_TO) && sim_rand_n(SIM_RS_CHAOS, 4) == 0)
            a.via_proxy = sim_rand_n(SIM_RS_CHAOS, 2) ? 20000 + 8 * (int)sim_rand_n(SIM_RS_CHAOS, 1000) : 200000 + 8 * (int)sim_rand_n(SIM_RS_CHAOS, 100000);
        if (prim == P_REVIVE_TO) {
            B.C[t].budget = 1 + (int)sim_rand_n(SIM_RS_CHAOS, 3);
            /* with lazy stack allocation the new incarnation gets another stack (and the old one
             * may serve somebody else by now): its range is learnt when it runs */
            B.C[t].lo = B.C[t].hi = NULL;
        }
        if (t >= 0) {
            cult *tg = &B.C[t];
            int rank = -1;
            ABT_OK(ABT_self_get_xstream_rank(&rank));
            int caller_after = (prim == P_SUSPEND_TO || prim == P_RESUME_SUSPEND_TO)             ? (int)ABT_THREAD_STATE_BLOCKED
                               : (prim == P_EXIT_TO || prim == P_RESUME_EXIT_TO || cancelling) ? (int)ABT_THREAD_STATE_TERMINATED
                                                                                               : (int)ABT_THREAD_STATE_READY;
            tg->from = me->id;
            tg->from_started = me->started;
            tg->from_slices = me->slices;
            tg->from_migrated = migrating;
            tg->expect_caller_state = caller_after;
            tg->expect_rank = rank;
            tg->hstate = H_RUNNING;
            tg->claimed_by = -1;
            if (rank >= 0 && rank < NRANK)
                B.es_expect[rank] = t;
            me->hstate = caller_after == (int)ABT_THREAD_STATE_BLOCKED ? H_SUSPENDING : caller_after == (int)ABT_THREAD_STATE_TERMINATED ? H_REVIVABLE : H_INPOOL;
        } else
            me->hstate = cancelling ? H_REVIVABLE : H_INPOOL;
        B.switches[prim]++;
        WL_DBG("[%lu] c%d %s -> c%d (migrating=%d)\n", (unsigned long)sim_steps(), me->id, pn[prim], t, migrating);
        volatile uint64_t pat[24];
        uint64_t pbase = 0x5a5a0000ULL + (uint64_t)(me->id * 4096 + me->budget * 24);
        for (int i = 0; i < 24; i++)
            pat[i] = pbase + (uint64_t)i;
        if (prim == P_EXIT_TO || prim == P_RESUME_EXIT_TO || cancelling) {
            me->done = 1;
            sim_progress();
            do_switch(&a);
            if (cancelling)
                sim_fail("cancel:survived-scheduling-point", "ULT %d continued after %s although its cancellation was requested before", me->id, pn[prim]);
            sim_fail("switch:exit-returned", "%s returned %d to the caller", pn[prim], a.rc);
        }
        if (B.c02) {
            unsigned m = canary_call(do_switch, &a, 0x7700 + (unsigned long)me->id * 16 + (unsigned long)prim);
            SIM_CHECK(m == 0, "ctx:register-clobbered", "ULT %d: callee-saved registers / FP control state changed across %s (mask %#x)", me->id, pn[prim], m);
        } else
            do_switch(&a);
        SIM_CHECK(a.rc == ABT_SUCCESS, "api-error", "%s returned %d", pn[prim], a.rc);
        for (int i = 0; i < 24; i++)
            SIM_CHECK(pat[i] == pbase + (uint64_t)i, "ctx:stack-corrupted", "ULT %d: stack pattern changed across %s", me->id, pn[prim]);
        me->hstate = H_RUNNING;
        sim_progress();
        on_control(me);
    }
    me->hstate = H_DONE;
    me->done = 1;
    sim_progress();
}

static void diagB(char *buf, int sz)
{
    int k = snprintf(buf, (size_t)sz, "created=%d drain=%d ", B.created, B.draining);
    for (int i = 0; i < B.created && k < sz - 30; i++)
        k += snprintf(buf + k, (size_t)(sz - k), "c%d:h%d/b%d/d%d ", i, B.C[i].hstate, B.C[i].budget, B.C[i].done);
}

static void run_chain(int c02)
{
    memset(&B, 0, sizeof B);
    B.c02 = c02;
    for (int i = 0; i < NRANK; i++)
        B.es_expect[i] = -1;
    sim_set_diag_cb(diagB);
    wl_rt *rt = &B.rt;
    wl_rt_start(rt, WL_RT_NO_TOPO2);
    /* chain pool: not the primary's own pool (the primary yield-polls there) unless alone */
    int cand[WL_MAX_POOLS], nc = 0;
    for (int i = 0; i < rt->npools; i++)
        if (rt->pool_es[i] != 0)
            cand[nc++] = i;
    B.pool = nc ? cand[plan_n((uint32_t)nc)] : 0;
    B.priv = rt->pool_es[B.pool] >= 0;
    B.home_rank = rt->pool_es[B.pool]; /* streams were created in sequence: rank == index */
    B.P = rt->pools[B.pool];
    B.n = plan_range(2, sim_limit("units", 6));
    int pre = plan_range(1, B.n); /* created up front; the rest through create_to */
    ABT_pool park;
    ABT_OK(ABT_pool_create_basic(ABT_POOL_FIFO, ABT_POOL_ACCESS_MPMC, ABT_FALSE, &park));
    sim_note("%s chain units=%d pre=%d pool=%d(%s): ", c02 ? "C02" : "C11", B.n, pre, B.pool, B.priv ? "private" : "shared");
    static char ustacks[MAXC][40000];
    for (int i = 0; i < pre; i++) {
        cult *c = &B.C[i];
        c->id = i;
        c->budget = 2 + (int)plan_n(5);
        c->claimed_by = -1;
        c->from = -1;
        c->expect_caller_state = -1;
        c->pool_idx = B.pool;
        ABT_thread_attr attr = ABT_THREAD_ATTR_NULL;
        c->stack_kind = c02 ? (int)plan_n(3) : 0;
        if (c->stack_kind == 1) {
            /* malloc'ed stack of a size that is not a multiple of anything convenient */
            ABT_OK(ABT_thread_attr_create(&attr));
            c->stack_size = 16384 + 8 * (size_t)plan_n(2048);
            ABT_OK(ABT_thread_attr_set_stacksize(attr, c->stack_size));
        } else if (c->stack_kind == 2) {
            ABT_OK(ABT_thread_attr_create(&attr));
            size_t off = 8 * (size_t)plan_n(8);
            c->stack_size = 20000 + 8 * (size_t)plan_n(2000);
            c->user_stack = ustacks[i] + off;
            ABT_OK(ABT_thread_attr_set_stack(attr, c->user_stack, c->stack_size));
        }
        sim_note("c%d:stack%d/%zu ", i, c->stack_kind, c->stack_size);
        /* create in a parking pool and take it out again: READY, never started, in no pool */
        ABT_OK(ABT_thread_create(park, chain_body, c, attr, &c->th));
        if (attr != ABT_THREAD_ATTR_NULL)
            ABT_OK(ABT_thread_attr_free(&attr));
        ABT_thread t;
        ABT_OK(ABT_pool_pop_thread(park, &t));
        ABT_OK(ABT_thread_set_associated_pool(c->th, B.P));
        c->hstate = H_HELD;
        B.created++;
    }
    /* start the chain: unit 0 goes into the pool */
    B.C[0].hstate = H_INPOOL;
    ABT_OK(ABT_pool_push_thread(B.P, B.C[0].th));
    sim_progress();
    /* wait until the chain has run dry, then drain: resume the blocked, push the held */
    for (;;) {
        int active = 0;
        for (int i = 0; i < B.created; i++)
            if (B.C[i].hstate == H_RUNNING || B.C[i].hstate == H_INPOOL)
                active = 1;
        if (!active)
            break;
        ABT_OK(ABT_thread_yield());
    }
    B.draining = 1;
    for (;;) {
        int left = 0;
        for (int i = 0; i < B.created; i++) {
            cult *c = &B.C[i];
            if (c->hstate == H_SUSPENDING) {
                while (!really_blocked(c))
                    ABT_OK(ABT_thread_yield());
                c->hstate = H_INPOOL;
                ABT_OK(ABT_thread_resume(c->th));
                sim_progress();
            } else if (c->hstate == H_HELD) {
                c->hstate = H_INPOOL;
                ABT_OK(ABT_pool_push_thread(B.P, c->th));
                sim_progress();
            }
            if (c->hstate != H_DONE && c->hstate != H_REVIVABLE)
                left = 1;
        }
        if (!left)
            break;
        ABT_OK(ABT_thread_yield());
    }
    for (int i = 0; i < B.created; i++) {
        cult *c = &B.C[i];
        ABT_OK(ABT_thread_free(&c->th));
        SIM_CHECK(c->done, "switch:incomplete", "chain ULT %d joined before it finished", i);
        sim_progress();
    }
    for (int i = 0; i < rt->npools; i++) {
        int nb = wb_pool_num_blocked(rt->pools[i]);
        SIM_CHECK(nb == 0, "pool:num-blocked-unbalanced", "num_blocked of pool %d is %d after all chain units finished", i, nb);
    }
    sim_count(c02 ? "c02.switch_with_pending_migration" : "c11.switch_with_pending_migration", (uint64_t)B.migrations_at_switch);
    sim_count(c02 ? "c02.switches_by_unnamed_proxy" : "c11.switches_by_unnamed_proxy", (uint64_t)B.proxies);
    for (int p = 0; p < P_N; p++) {
        char nm[48];
        snprintf(nm, sizeof nm, "%s.%s", c02 ? "c02" : "c11", pn[p]);
        sim_count(nm, (uint64_t)B.switches[p]);
    }
    ABT_OK(ABT_pool_free(&park));
    wl_rt_stop(rt);
}
static void run_c11_chain(void)
{
    run_chain(0);
}
static void run_c02_chain(void)
{
    run_chain(1);
}
static void run_c06_chain(void)
{
    run_chain(0); /* pool accounting (num_blocked) across directed switches, migrations, cancels */
}
SIM_WORKLOAD("C11", "chain", run_c11_chain, 10)
SIM_WORKLOAD("C06", "chain", run_c06_chain, 5)
SIM_WORKLOAD("C02", "chain", run_c02_chain, 10)
/* C01: every unit of the chain -- whatever directed switch, pending migration or cancellation it
 * went through -- ends or is accounted for; a unit that is dropped on the way leaves the run
 * without progress */
static void run_c01_chain(void)
{
    run_chain(0);
}
SIM_WORKLOAD("C01", "chain", run_c01_chain, 2)

/* ================================================================ scenario C */
/* ABT_thread_yield_to towards a unit that sits in a pool other streams pop from at the same
 * time (the implementation re-checks under the pool lock and refuses with an error when it
 * lost the race), and towards units of a legacy ABT_pool_def pool whose remove operation may
 * fail.  Whatever happens, every target runs exactly once, on one stream at a time, the
 * caller continues, and the blocked-unit count of the pool is balanced at the end. */
#define YT_MAX 3
typedef struct ytgt {
    int id;
    ABT_thread th;
    volatile int runs, inside;
} ytgt;
typedef struct ycaller {
    int id, rounds;
    ABT_thread th;
    ytgt T[YT_MAX];
    volatile int done;
} ycaller;
static struct {
    ABT_pool P;
    ycaller C[3];
    int ncall, c02, legacy;
    long switched, refused, targets;
} Y;

static void yt_fn(void *arg)
{
    ytgt *t = (ytgt *)arg;
    t->inside++;
    SIM_CHECK(t->inside == 1, "once:runs-on-two-streams", "yield_to target %d is being executed twice at the same time", t->id);
    t->runs++;
    SIM_CHECK(t->runs == 1, "once:started-twice", "yield_to target %d started %d times", t->id, t->runs);
    if (t->id & 1)
        ABT_OK(ABT_thread_yield());
    sim_progress();
    t->inside--;
}
static void yt_switch(void *arg)
{
    ytgt *t = (ytgt *)arg;
    int rc = ABT_thread_yield_to(t->th);
    if (rc == ABT_SUCCESS)
        Y.switched++;
    else
        Y.refused++; /* lost the race against another stream's pop, or remove failed */
}
static void yt_caller_fn(void *arg)
{
    ycaller *c = (ycaller *)arg;
    for (int r = 0; r < c->rounds; r++) {
        int n = 1 + (int)sim_rand_n(SIM_RS_CHAOS, YT_MAX);
        for (int i = 0; i < n; i++) {
            ytgt *t = &c->T[i];
            t->id = c->id * 100 + r * 10 + i;
            t->runs = t->inside = 0;
            ABT_OK(ABT_thread_create(Y.P, yt_fn, t, ABT_THREAD_ATTR_NULL, &t->th));
            Y.targets++;
        }
        ytgt *t = &c->T[sim_rand_n(SIM_RS_CHAOS, (uint32_t)n)];
        if (Y.c02) {
            unsigned m = canary_call(yt_switch, t, 0x6600 + (unsigned long)c->id);
            SIM_CHECK(m == 0, "ctx:register-clobbered", "caller %d: callee-saved registers / FP control state changed across ABT_thread_yield_to (mask %#x)", c->id, m);
        } else
            yt_switch(t);
        for (int i = 0; i < n; i++) {
            ABT_OK(ABT_thread_free(&c->T[i].th));
            SIM_CHECK(c->T[i].runs == 1 && c->T[i].inside == 0, "once:not-exactly-once", "yield_to target %d ran %d times by the time ABT_thread_free returned", c->T[i].id,
                      c->T[i].runs);
        }
        sim_progress();
    }
    c->done = 1;
}

static void run_yield_to_race(int c02)
{
    memset(&Y, 0, sizeof Y);
    Y.c02 = c02;
    wl_user_pools_reset();
    wl_env_swarm();
    ABT_OK(ABT_init(0, NULL));
    sim_allow_faults((1u << SIM_F_STALL) | (1u << SIM_F_SLOW_NODE) | (1u << SIM_F_TARGET_DELAY));
    Y.legacy = plan_n(3) == 0;
    int nes = Y.legacy ? plan_range(1, 2) : plan_range(2, 3);
    static const ABT_pool_kind pk[] = { ABT_POOL_FIFO, ABT_POOL_FIFO_WAIT, ABT_POOL_RANDWS };
    static const ABT_sched_predef sk[] = { ABT_SCHED_BASIC, ABT_SCHED_PRIO, ABT_SCHED_RANDWS };
    int failing = 0;
    if (Y.legacy) {
        failing = plan_bool();
        Y.P = wl_make_legacy_pool(failing);
    } else
        ABT_OK(ABT_pool_create_basic(pk[plan_n(3)], ABT_POOL_ACCESS_MPMC, ABT_FALSE, &Y.P));
    ABT_xstream xs[3];
    for (int e = 0; e < nes; e++)
        ABT_OK(ABT_xstream_create_basic(sk[plan_n(3)], 1, &Y.P, ABT_SCHED_CONFIG_NULL, &xs[e]));
    Y.ncall = plan_range(1, 3);
    sim_note("%s yield_to-race pool=%s%s streams=%d callers=%d ", c02 ? "C02" : "C11", Y.legacy ? "legacy-def" : "built-in", failing ? "(remove may fail)" : "", nes, Y.ncall);
    for (int i = 0; i < Y.ncall; i++) {
        Y.C[i].id = i;
        Y.C[i].rounds = plan_range(1, 3);
        ABT_OK(ABT_thread_create(Y.P, yt_caller_fn, &Y.C[i], ABT_THREAD_ATTR_NULL, &Y.C[i].th));
    }
    for (int i = 0; i < Y.ncall; i++) {
        ABT_OK(ABT_thread_free(&Y.C[i].th));
        SIM_CHECK(Y.C[i].done, "once:not-exactly-once", "caller %d did not finish", i);
        sim_progress();
    }
    /* nothing is blocked and nothing is queued now */
    int nb = wb_pool_num_blocked(Y.P);
    SIM_CHECK(nb == 0, "pool:num-blocked-unbalanced", "num_blocked of the pool is %d after every unit has been joined", nb);
    size_t tot = 99;
    ABT_OK(ABT_pool_get_total_size(Y.P, &tot));
    SIM_CHECK(tot == 0, "pool:total-size", "ABT_pool_get_total_size = %zu after every unit has been joined", tot);
    for (int e = 0; e < nes; e++) {
        ABT_OK(ABT_xstream_join(xs[e]));
        ABT_OK(ABT_xstream_free(&xs[e]));
        sim_progress();
    }
    ABT_OK(ABT_pool_free(&Y.P));
    ABT_OK(ABT_finalize());
    sim_ledger_check_empty("after ABT_finalize");
    wl_user_pools_check();
    sim_count(c02 ? "c02.thread_yield_to_race_switched" : "c11.thread_yield_to_race_switched", (uint64_t)Y.switched);
    sim_count(c02 ? "c02.thread_yield_to_race_refused" : "c11.thread_yield_to_race_refused", (uint64_t)Y.refused);
}
static void run_c11_ytrace(void)
{
    run_yield_to_race(0);
}
static void run_c02_ytrace(void)
{
    run_yield_to_race(1);
}
static void run_c06_ytrace(void)
{
    run_yield_to_race(0);
}
SIM_WORKLOAD("C11", "yield_to-race", run_c11_ytrace, 4)
SIM_WORKLOAD("C02", "yield_to-race", run_c02_ytrace, 4)
SIM_WORKLOAD("C06", "yield_to-race", run_c06_ytrace, 3)
/* C01: whoever wins the race, every target runs exactly once and nothing queued behind it is lost;
 * C14: the race through a legacy user-defined pool whose remove may be refused */
static void run_c01_ytrace(void)
{
    run_yield_to_race(0);
}
static void run_c14_ytrace(void)
{
    run_yield_to_race(0);
}
SIM_WORKLOAD("C01", "yield_to-race", run_c01_ytrace, 2)
SIM_WORKLOAD("C14", "yield_to-race", run_c14_ytrace, 2)
