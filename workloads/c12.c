/* C12: work-unit lifecycle: exit, cancel, auto-free and revive follow the state machine */
#include "wl_common.h"
#include "whitebox.h"

#define MAXU 6
#define MAXINC 5
enum { BH_RETURN = 0, BH_YIELDS, BH_LOOP, BH_SUSPEND, BH_EXIT, BH_N };
static const char *bhn[] = { "return", "yields", "loop", "suspend", "exit" };

typedef struct incarnation {
    int behaviour, cancel, cancel_delay, yields;
    int migrates; /* the unit also keeps requesting its own migration: both requests share one word */
} incarnation;

typedef struct lu {
    int id, is_task, pool, driver_kind, driver_pool;
    int ninc;
    incarnation inc[MAXINC];
    ABT_thread th;
    /* per incarnation, reset by the driver */
    volatile int cur, starts, completions, ticks;
    volatile uint64_t cancel_returned_step; /* 0: no cancel yet */
    volatile int suspended_epoch, resumed_epoch;
    /* state monitor */
    const void *state_addr;
    int tracked, last_state;
    volatile int driver_done;
    ABT_thread dth;
    int dtid;
} lu;

static struct {
    wl_rt rt;
    lu U[MAXU];
    int n;
    long transitions, cancels_before_run, cancels_at_yield, cancels_late, revives, self_migrations;
} S;

static const char *stn(int s)
{
    static const char *n[] = { "READY", "RUNNING", "BLOCKED", "TERMINATED" };
    return s >= 0 && s < 4 ? n[s] : "?";
}

/* M-state: every store to a tracked unit's state word is a hook, so the full transition
 * sequence is observed */
static void on_store(const void *addr)
{
    for (int i = 0; i < S.n; i++) {
        lu *u = &S.U[i];
        if (!u->tracked || u->state_addr != addr)
            continue;
        int now = *(volatile const int *)addr;
        int prev = u->last_state;
        if (now == prev)
            return;
        int ok = 0;
        switch (prev) {
            case ABT_THREAD_STATE_READY:
                ok = now == ABT_THREAD_STATE_RUNNING || now == ABT_THREAD_STATE_TERMINATED;
                break;
            case ABT_THREAD_STATE_RUNNING:
                ok = now == ABT_THREAD_STATE_READY || now == ABT_THREAD_STATE_BLOCKED || now == ABT_THREAD_STATE_TERMINATED;
                break;
            case ABT_THREAD_STATE_BLOCKED:
                ok = now == ABT_THREAD_STATE_READY || now == ABT_THREAD_STATE_RUNNING;
                break;
            case ABT_THREAD_STATE_TERMINATED:
                ok = now == ABT_THREAD_STATE_READY; /* revive */
                break;
        }
        SIM_CHECK(ok, "lifecycle:illegal-transition", "unit %d (%s): state %s -> %s", u->id, u->is_task ? "tasklet" : "ULT", stn(prev), stn(now));
        u->last_state = now;
        S.transitions++;
        return;
    }
}

static void track(lu *u)
{
    u->state_addr = wb_thread_state_addr(u->th);
    u->last_state = wb_thread_state(u->th);
    u->tracked = 1;
}

static void unit_fn(void *arg)
{
    lu *u = (lu *)arg;
    incarnation *in = &u->inc[u->cur];
    u->starts++;
    SIM_CHECK(u->starts == 1, "lifecycle:started-twice", "unit %d incarnation %d started %d times", u->id, u->cur, u->starts);
    if (u->is_task) {
        u->completions++;
        return;
    }
    switch (in->behaviour) {
        case BH_RETURN:
            break;
        case BH_YIELDS:
        case BH_LOOP:
            for (int i = 0; in->behaviour == BH_LOOP || i < in->yields; i++) {
                u->ticks++;
                if (in->migrates && (i & 1) == 0) {
                    ABT_thread self;
                    ABT_OK(ABT_self_get_thread(&self));
                    int rc = ABT_thread_migrate_to_pool(self, S.rt.pools[sim_rand_n(SIM_RS_CHAOS, (uint32_t)S.rt.npools)]);
                    SIM_CHECK(rc == ABT_SUCCESS || rc == ABT_ERR_MIGRATION_TARGET, "migrate:error-code", "ABT_thread_migrate_to_pool returned %d", rc);
                    if (rc == ABT_SUCCESS)
                        S.self_migrations++;
                }
                uint64_t inv = sim_steps();
                ABT_OK(ABT_thread_yield());
                /* a scheduling point invoked after ABT_thread_cancel returned must not return */
                SIM_CHECK(!(u->cancel_returned_step && inv > u->cancel_returned_step), "lifecycle:cancel-ignored",
                          "unit %d: ABT_thread_yield invoked at step %lu returned although ABT_thread_cancel had returned at step %lu", u->id, (unsigned long)inv,
                          (unsigned long)u->cancel_returned_step);
                sim_progress();
            }
            break;
        case BH_SUSPEND: {
            u->suspended_epoch++;
            uint64_t inv = sim_steps();
            ABT_OK(ABT_self_suspend());
            SIM_CHECK(u->resumed_epoch == u->suspended_epoch, "suspend:ran-without-resume", "unit %d runs after suspend without resume", u->id);
            SIM_CHECK(!(u->cancel_returned_step && inv > u->cancel_returned_step), "lifecycle:cancel-ignored",
                      "unit %d: ABT_self_suspend invoked at step %lu returned although ABT_thread_cancel had returned at step %lu", u->id, (unsigned long)inv,
                      (unsigned long)u->cancel_returned_step);
            /* a cancel that arrived while blocked takes effect when the unit is scheduled again;
             * one that arrives now must take effect at the next yield */
            uint64_t inv2 = sim_steps();
            ABT_OK(ABT_thread_yield());
            SIM_CHECK(!(u->cancel_returned_step && inv2 > u->cancel_returned_step), "lifecycle:cancel-ignored", "unit %d: yield after resume returned although cancelled", u->id);
            break;
        }
        case BH_EXIT:
            u->completions++;
            if (in->yields & 1)
                ABT_thread_exit();
            else
                ABT_self_exit();
            sim_fail("lifecycle:exit-returned", "code after ABT_self_exit ran");
    }
    u->completions++;
    sim_progress();
}

static void pause_d(int kind, int n)
{
    for (int i = 0; i < n; i++) {
        if (kind == AK_EXT)
            sim_yield();
        else
            ABT_OK(ABT_thread_yield());
    }
}

/* one driver per unit performs the unit's whole history sequentially */
static void driver(void *arg)
{
    lu *u = (lu *)arg;
    int kind = u->driver_kind;
    for (int k = 0; k < u->ninc; k++) {
        incarnation *in = &u->inc[k];
        u->cur = k;
        u->starts = 0;
        u->completions = 0;
        u->cancel_returned_step = 0;
        if (k == 0) {
            if (u->is_task)
                ABT_OK(ABT_task_create(S.rt.pools[u->pool], unit_fn, u, &u->th));
            else
                ABT_OK(ABT_thread_create(S.rt.pools[u->pool], unit_fn, u, ABT_THREAD_ATTR_NULL, &u->th));
            track(u);
        } else {
            ABT_thread_state st;
            ABT_OK(ABT_thread_get_state(u->th, &st));
            SIM_CHECK(st == ABT_THREAD_STATE_TERMINATED, "lifecycle:not-joinable", "terminated named unit %d reports state %d before revive", u->id, (int)st);
            if (u->is_task)
                ABT_OK(ABT_task_revive(S.rt.pools[u->pool], unit_fn, u, &u->th));
            else
                ABT_OK(ABT_thread_revive(S.rt.pools[u->pool], unit_fn, u, &u->th));
            S.revives++;
        }
        sim_progress();
        int resumed = 0;
        /* The request certainly precedes the unit's first pop when the driver is a ULT running on
         * the only stream that serves the unit's pool and does not yield in between: the pop is
         * then the unit's next scheduling point, and it must terminate there without running. */
        int certainly_before_pop = 0;
        if (in->cancel && in->cancel_delay == 0 && kind == AK_ULT && S.rt.pool_es[u->pool] >= 0) {
            ABT_xstream self;
            ABT_OK(ABT_self_get_xstream(&self));
            certainly_before_pop = self == S.rt.xs[S.rt.pool_es[u->pool]];
        }
        if (in->cancel) {
            pause_d(kind, in->cancel_delay);
            int started_before = u->starts;
            if (u->is_task)
                ABT_OK(ABT_task_cancel(u->th));
            else
                ABT_OK(ABT_thread_cancel(u->th));
            u->cancel_returned_step = sim_steps();
            if (!started_before)
                S.cancels_before_run++;
            sim_progress();
        }
        if (!u->is_task && in->behaviour == BH_SUSPEND) {
            /* resume it once it is blocked (unless it never gets that far) */
            for (;;) {
                ABT_thread_state st;
                ABT_OK(ABT_thread_get_state(u->th, &st));
                if (st == ABT_THREAD_STATE_TERMINATED)
                    break;
                if (st == ABT_THREAD_STATE_BLOCKED && u->resumed_epoch < u->suspended_epoch) {
                    u->resumed_epoch++;
                    ABT_OK(ABT_thread_resume(u->th));
                    resumed = 1;
                    break;
                }
                pause_d(kind, 1);
            }
        }
        (void)resumed;
        /* join (the joiner must be released also when the target is cancelled or exits) */
        ABT_OK(ABT_thread_join(u->th));
        sim_progress();
        ABT_thread_state st;
        ABT_OK(ABT_thread_get_state(u->th, &st));
        SIM_CHECK(st == ABT_THREAD_STATE_TERMINATED, "join:state-not-terminated", "unit %d incarnation %d: state %d after join", u->id, k, (int)st);
        if (!in->cancel) {
            SIM_CHECK(u->starts == 1 && u->completions == 1, "lifecycle:not-exactly-once", "unit %d incarnation %d (%s): starts=%d completions=%d", u->id, k,
                      bhn[in->behaviour], u->starts, u->completions);
        } else {
            SIM_CHECK(u->starts <= 1 && u->completions <= u->starts, "lifecycle:not-exactly-once", "cancelled unit %d incarnation %d: starts=%d completions=%d", u->id, k,
                      u->starts, u->completions);
            if (in->behaviour == BH_LOOP && !u->is_task)
                SIM_CHECK(u->completions == 0, "lifecycle:cancel-ignored", "unit %d loops for ever unless cancelled, yet it completed", u->id);
            if (certainly_before_pop) {
                SIM_CHECK(u->starts == 0, "lifecycle:cancel-ignored", "%s %d incarnation %d was cancelled while it sat in the pool of the canceller's own stream, yet its function ran", u->is_task ? "tasklet" : "ULT",
                          u->id, k);
                sim_count(u->is_task ? "c12.tasklets_cancelled_in_their_pool" : "c12.ults_cancelled_in_their_pool", 1);
            }
        }
        int t0 = u->ticks;
        pause_d(kind, 2);
        SIM_CHECK(u->ticks == t0, "lifecycle:ran-after-termination", "unit %d executed after its join returned", u->id);
    }
    u->tracked = 0;
    if (u->is_task)
        ABT_OK(ABT_task_free(&u->th));
    else
        ABT_OK(ABT_thread_free(&u->th));
    u->driver_done = 1;
    sim_progress();
}

static void diag(char *buf, int sz)
{
    int k = 0;
    for (int i = 0; i < S.n && k < sz - 50; i++) {
        lu *u = &S.U[i];
        k += snprintf(buf + k, (size_t)(sz - k), "u%d:%s:inc%d/%d(%s%s):st%d/c%d/%s:drv%d ", i, u->is_task ? "T" : "U", u->cur, u->ninc, bhn[u->inc[u->cur].behaviour],
                      u->inc[u->cur].cancel ? "+cancel" : "", u->starts, u->completions, u->tracked ? stn(u->last_state) : "-", u->driver_done);
    }
}

static void run_c12(void)
{
    memset(&S, 0, sizeof S);
    sim_set_diag_cb(diag);
    sim_set_store_cb(on_store);
    wl_rt *rt = &S.rt;
    wl_rt_start(rt, WL_RT_NO_TOPO2);
    int n = plan_range(1, sim_limit("units", 5));
    S.n = n;
    sim_note("C12 units=%d: ", n);
    for (int i = 0; i < n; i++) {
        lu *u = &S.U[i];
        u->id = i;
        u->is_task = plan_n(4) == 0;
        u->pool = (int)plan_n((uint32_t)rt->npools);
        int dk = (int)plan_n(3);
        u->driver_kind = dk == 0 ? AK_EXT : AK_ULT;
        u->driver_pool = (int)plan_n((uint32_t)rt->npools);
        u->ninc = plan_range(1, sim_limit("incarnations", 4));
        sim_note("[%s%d@%d drv=%s:", u->is_task ? "T" : "U", i, u->pool, wl_actor_kind_names[u->driver_kind]);
        for (int k = 0; k < u->ninc; k++) {
            incarnation *in = &u->inc[k];
            in->behaviour = u->is_task ? BH_RETURN : (int)plan_n(BH_N);
            in->cancel = plan_n(3) == 0;
            if (in->behaviour == BH_LOOP)
                in->cancel = 1; /* the only way out */
            in->cancel_delay = (int)plan_n(6);
            in->migrates = plan_n(3) == 0;
            in->yields = (int)plan_n(5);
            sim_note(" %s%s", bhn[in->behaviour], in->cancel ? "+cancel" : "");
        }
        sim_note("] ");
    }
    for (int i = 0; i < n; i++) {
        lu *u = &S.U[i];
        u->dtid = -1;
        if (u->driver_kind == AK_EXT)
            u->dtid = sim_thread_create(driver, u);
        else
            ABT_OK(ABT_thread_create(rt->pools[u->driver_pool], driver, u, ABT_THREAD_ATTR_NULL, &u->dth));
    }
    for (int i = 0; i < n; i++) {
        lu *u = &S.U[i];
        if (u->driver_kind == AK_EXT) {
            while (!u->driver_done)
                ABT_OK(ABT_thread_yield());
            sim_thread_join(u->dtid);
        } else
            ABT_OK(ABT_thread_free(&u->dth));
        SIM_CHECK(u->driver_done, "lifecycle:driver", "driver of unit %d did not finish", i);
    }
    sim_count("c12.state_transitions_observed", (uint64_t)S.transitions);
    sim_count("c12.cancel_before_start", (uint64_t)S.cancels_before_run);
    sim_count("c12.revives", (uint64_t)S.revives);
    sim_count("c12.self_migration_requests", (uint64_t)S.self_migrations);
    sim_set_store_cb(NULL);
    wl_rt_stop(rt);
}
SIM_WORKLOAD("C12", "lifecycle", run_c12, 10)
