/* C14: user-defined pools and schedulers see a consistent unit <-> work-unit mapping */
#include "wl_common.h"

#define MAXREC 256
#define MAXU 10
#define NUP 2

typedef struct urec {
    uintptr_t handle;
    ABT_thread thread;
    int pool; /* user pool index */
    int alive, queued;
} urec;

typedef struct upool {
    ABT_pool pool;
    int q[MAXREC], nq; /* indices into REC of queued units */
    long creates, frees, pushes, pops;
} upool;

typedef struct cu {
    int id, is_task, pool; /* pool: 0..NUP-1 user pools, NUP: built-in */
    int nsteps, steps[8];
    ABT_thread th;
    volatile int starts, done;
    int cur;          /* pool the unit is associated with (maintained by the unit itself) */
    int park;         /* suspends and waits to be resumed: its unit stays mapped meanwhile */
    volatile int parked_epoch, resumed_epoch;
} cu;

static struct {
    urec REC[MAXREC];
    int nrec;
    uintptr_t ctr;
    upool UP[NUP];
    ABT_pool builtin;
    ABT_pool P[NUP + 1];
    cu U[MAXU];
    int n;
    long expected_creates;
    long queries;
    int legacy;
    int recycle;             /* the pool hands a freed handle out again at once (LIFO free list) */
    int identity;            /* the pools use the work-unit handle itself as the unit handle (abt.h allows it): a unit that
                              * goes from one user pool to another then has the same unit value in both */
    int freel[MAXREC], nfree;
    long recycled;
    int user_scheds;
    ABT_xstream xs[3];
} S;

static int up_index(ABT_pool pool)
{
    for (int i = 0; i < NUP; i++)
        if (S.UP[i].pool == pool)
            return i;
    return -1;
}
static urec *find_rec_p(uintptr_t h, int pi)
{
    /* the live unit with this handle in user pool pi (any pool: pi < 0); a dead one otherwise */
    urec *dead = NULL;
    for (int i = 0; i < S.nrec; i++)
        if (S.REC[i].handle == h) {
            if (S.REC[i].alive && (pi < 0 || S.REC[i].pool == pi))
                return &S.REC[i];
            if (!dead || (pi >= 0 && S.REC[i].pool == pi))
                dead = &S.REC[i];
        }
    return dead;
}
static urec *find_rec(uintptr_t h)
{
    return find_rec_p(h, -1);
}

/* unit handles are crafted so that all of them fall into bucket 1 of the 256-entry
 * unit->work-unit table: h = k * 2^27 + 8 */
static ABT_unit do_create_unit(ABT_pool pool, ABT_thread thread)
{
    int pi = up_index(pool);
    SIM_CHECK(pi >= 0, "upool:unknown-pool", "create_unit called for a pool that is not a user pool");
    SIM_CHECK(S.nrec < MAXREC, "infra:too-many-units", "unit record table full");
    /* no live unit of this thread may exist in the same pool already */
    for (int i = 0; i < S.nrec; i++)
        SIM_CHECK(!(S.REC[i].alive && S.REC[i].thread == thread && S.REC[i].pool == pi), "upool:create-unit-twice",
                  "create_unit called for a work unit that already has a live unit in user pool %d", pi);
    urec *r = NULL;
    if (S.identity) {
        for (int i = 0; i < S.nrec && !r; i++)
            if (!S.REC[i].alive)
                r = &S.REC[i];
        if (!r) {
            SIM_CHECK(S.nrec < MAXREC, "infra:too-many-units", "unit record table full");
            r = &S.REC[S.nrec++];
        }
        r->handle = (uintptr_t)thread;
    } else if (S.recycle && S.nfree > 0) {
        /* like a slab allocator: the most recently freed handle is reused first, possibly by
         * another stream while the freeing stream has not returned from the library yet */
        r = &S.REC[S.freel[--S.nfree]];
        S.recycled++;
    } else {
        r = &S.REC[S.nrec++];
        r->handle = ((++S.ctr) << 27) | 8;
    }
    r->thread = thread;
    r->pool = pi;
    r->alive = 1;
    r->queued = 0;
    S.UP[pi].creates++;
    return (ABT_unit)r->handle;
}
static void do_free_unit(ABT_pool pool, ABT_unit unit)
{
    int pi = up_index(pool);
    urec *r = find_rec_p((uintptr_t)unit, pi);
    SIM_CHECK(r != NULL, "upool:free-unknown-unit", "free_unit called with a handle that create_unit never returned");
    SIM_CHECK(r->alive, "upool:free-unit-twice", "free_unit called twice for unit %#lx", (unsigned long)r->handle);
    SIM_CHECK(r->pool == pi, "upool:free-wrong-pool", "free_unit of pool %d called for a unit of pool %d", pi, r->pool);
    SIM_CHECK(!r->queued, "upool:free-queued-unit", "free_unit called for a unit that is still queued in the pool");
    r->alive = 0;
    S.UP[pi].frees++;
    if (S.recycle && !S.identity)
        S.freel[S.nfree++] = (int)(r - S.REC);
}
static void do_push(ABT_pool pool, ABT_unit unit)
{
    int pi = up_index(pool);
    urec *r = find_rec_p((uintptr_t)unit, pi);
    SIM_CHECK(r != NULL, "upool:push-unknown-unit", "push called with a handle that create_unit never returned");
    SIM_CHECK(r->alive, "upool:use-after-free", "push called with unit %#lx after free_unit", (unsigned long)r->handle);
    SIM_CHECK(r->pool == pi, "upool:push-wrong-pool", "unit of user pool %d pushed to user pool %d", r->pool, pi);
    SIM_CHECK(!r->queued, "upool:push-twice", "unit %#lx pushed while it is already queued", (unsigned long)r->handle);
    r->queued = 1;
    upool *p = &S.UP[pi];
    p->q[p->nq++] = (int)(r - S.REC);
    p->pushes++;
}
static urec *do_pop(ABT_pool pool)
{
    int pi = up_index(pool);
    upool *p = &S.UP[pi];
    if (p->nq == 0)
        return NULL;
    /* any order a pool may choose: seeded */
    int k = (int)sim_rand_n(SIM_RS_CHAOS, (uint32_t)p->nq);
    if (k != 0)
        sim_fault_fired(SIM_F_CHAOS_POP);
    urec *r = &S.REC[p->q[k]];
    p->q[k] = p->q[--p->nq];
    SIM_CHECK(r->alive && r->queued, "upool:use-after-free", "queued unit is not alive");
    r->queued = 0;
    p->pops++;
    return r;
}

/* ---- new-style definition ---- */
static ABT_unit n_create_unit(ABT_pool pool, ABT_thread thread)
{
    return do_create_unit(pool, thread);
}
static void n_free_unit(ABT_pool pool, ABT_unit unit)
{
    do_free_unit(pool, unit);
}
static ABT_bool n_is_empty(ABT_pool pool)
{
    return S.UP[up_index(pool)].nq == 0 ? ABT_TRUE : ABT_FALSE;
}
static ABT_thread n_pop(ABT_pool pool, ABT_pool_context ctx)
{
    (void)ctx;
    urec *r = do_pop(pool);
    return r ? r->thread : ABT_THREAD_NULL;
}
static void n_push(ABT_pool pool, ABT_unit unit, ABT_pool_context ctx)
{
    (void)ctx;
    do_push(pool, unit);
}
static size_t n_get_size(ABT_pool pool)
{
    return (size_t)S.UP[up_index(pool)].nq;
}

/* ---- legacy ABT_pool_def ---- */
static ABT_unit l_create(ABT_thread thread)
{
    /* the legacy callback does not receive the pool: the harness sets it right before */
    extern ABT_pool c14_legacy_target;
    return do_create_unit(c14_legacy_target, thread);
}
ABT_pool c14_legacy_target;
static void l_free(ABT_unit *unit)
{
    urec *r = find_rec((uintptr_t)*unit);
    SIM_CHECK(r != NULL, "upool:free-unknown-unit", "legacy u_free called with an unknown handle");
    do_free_unit(S.UP[r->pool].pool, *unit);
    *unit = ABT_UNIT_NULL;
}
static size_t l_get_size(ABT_pool pool)
{
    return n_get_size(pool);
}
static void l_push(ABT_pool pool, ABT_unit unit)
{
    do_push(pool, unit);
}
static ABT_unit l_pop(ABT_pool pool)
{
    urec *r = do_pop(pool);
    return r ? (ABT_unit)r->handle : ABT_UNIT_NULL;
}
/* the deprecated blocking pop of the legacy interface (ABT_SCHED_BASIC_WAIT falls back to it
 * when it has nothing to run): it hands out a unit like p_pop does */
static long l_timedwait_handouts;
static ABT_unit l_pop_timedwait(ABT_pool pool, double abstime)
{
    (void)abstime;
    urec *r = do_pop(pool);
    if (r)
        l_timedwait_handouts++;
    else
        sim_yield();
    return r ? (ABT_unit)r->handle : ABT_UNIT_NULL;
}
static int l_init(ABT_pool pool, ABT_pool_config cfg)
{
    (void)pool;
    (void)cfg;
    return ABT_SUCCESS;
}

static void check_translation(cu *u, ABT_thread th)
{
    /* translation of a live, stable unit: the caller guarantees it cannot move or be freed */
    ABT_unit unit;
    ABT_OK(ABT_thread_get_unit(th, &unit));
    if (u->cur < NUP) {
        urec *r = find_rec_p((uintptr_t)unit, u->cur);
        SIM_CHECK(r && r->alive && r->thread == th && r->pool == u->cur, "upool:wrong-translation",
                  "ABT_thread_get_unit of ULT %d returned %#lx which is not its live unit in user pool %d", u->id, (unsigned long)(uintptr_t)unit, u->cur);
        ABT_thread back = ABT_THREAD_NULL;
        ABT_OK(ABT_unit_get_thread(unit, &back));
        SIM_CHECK(back == th, "upool:wrong-translation", "ABT_unit_get_thread(%#lx) returned another work unit", (unsigned long)(uintptr_t)unit);
    }
    S.queries++;
}

static void unit_fn(void *arg)
{
    cu *u = (cu *)arg;
    u->starts++;
    SIM_CHECK(u->starts == 1, "once:started-twice", "unit %d started twice", u->id);
    if (u->is_task) {
        u->done = 1;
        return;
    }
    /* the creator may not have stored the handle yet */
    ABT_thread self;
    ABT_OK(ABT_self_get_thread(&self));
    for (int i = 0; i < u->nsteps; i++) {
        int st = u->steps[i];
        if (S.legacy && st < NUP)
            st = 0; /* the legacy create callback is not told the pool: a single user pool */
        if (st < NUP + 1 && st != u->cur) {
            /* re-associate myself with another pool: takes effect when I am pushed next */
            if (st < NUP)
                S.expected_creates++;
            ABT_OK(ABT_self_set_associated_pool(S.P[st]));
            u->cur = st;
            check_translation(u, self);
        }
        if (u->park && i == 0) {
            u->parked_epoch++;
            ABT_OK(ABT_self_suspend());
            SIM_CHECK(u->resumed_epoch == u->parked_epoch, "suspend:ran-without-resume", "unit %d ran without resume", u->id);
        } else
            ABT_OK(ABT_thread_yield());
        sim_progress();
    }
    check_translation(u, self);
    u->done = 1;
    sim_progress();
}

static void run_c14(void)
{
    memset(&S, 0, sizeof S);
    wl_env_swarm();
    ABT_OK(ABT_init(0, NULL));
    sim_allow_faults((1u << SIM_F_CHAOS_POP) | (1u << SIM_F_STALL) | (1u << SIM_F_SLOW_NODE) | (1u << SIM_F_TARGET_DELAY) | (1u << SIM_F_NANOSLEEP_EARLY));
    S.legacy = plan_n(3) == 0;
    S.recycle = plan_bool();
    S.identity = !S.legacy && plan_n(3) == 0;
    ABT_pool_user_def def = NULL;
    ABT_pool_def ldef;
    if (!S.legacy) {
        ABT_OK(ABT_pool_user_def_create(n_create_unit, n_free_unit, n_is_empty, n_pop, n_push, &def));
        ABT_OK(ABT_pool_user_def_set_get_size(def, n_get_size));
    } else {
        memset(&ldef, 0, sizeof ldef);
        ldef.access = ABT_POOL_ACCESS_MPMC;
        ldef.u_create_from_thread = l_create;
        ldef.u_free = l_free;
        ldef.p_init = l_init;
        ldef.p_get_size = l_get_size;
        ldef.p_push = l_push;
        ldef.p_pop = l_pop;
        if (plan_bool())
            ldef.p_pop_timedwait = l_pop_timedwait;
    }
    for (int i = 0; i < NUP; i++) {
        if (!S.legacy)
            ABT_OK(ABT_pool_create(def, ABT_POOL_CONFIG_NULL, &S.UP[i].pool));
        else
            ABT_OK(ABT_pool_create(&ldef, ABT_POOL_CONFIG_NULL, &S.UP[i].pool));
        S.P[i] = S.UP[i].pool;
    }
    c14_legacy_target = S.UP[0].pool;
    ABT_OK(ABT_pool_create_basic(ABT_POOL_FIFO, ABT_POOL_ACCESS_MPMC, ABT_FALSE, &S.builtin));
    S.P[NUP] = S.builtin;
    /* streams: each serves a mix of the three pools */
    int nes = plan_range(1, 3);
    static const ABT_sched_predef kinds[] = { ABT_SCHED_BASIC, ABT_SCHED_PRIO, ABT_SCHED_RANDWS, ABT_SCHED_BASIC_WAIT };
    for (int e = 0; e < nes; e++) {
        ABT_pool ps[3];
        int n = 0;
        int first = (int)plan_n(NUP + 1);
        for (int k = 0; k < NUP + 1; k++)
            ps[n++] = S.P[(first + k) % (NUP + 1)];
        if (plan_n(3) == 0) {
            /* a user-defined scheduler: pops with ABT_pool_pop_thread / ABT_pool_pop and runs
             * units with ABT_self_schedule / ABT_xstream_run_unit */
            ABT_OK(ABT_xstream_create(wl_make_user_sched(n, ps), &S.xs[e]));
            S.user_scheds++;
        } else
            ABT_OK(ABT_xstream_create_basic(kinds[plan_n(4)], n, ps, ABT_SCHED_CONFIG_NULL, &S.xs[e]));
    }
    int n = plan_range(1, sim_limit("units", 8));
    S.n = n;
    sim_note("C14 %s user pools%s%s, streams=%d units=%d: ", S.legacy ? "legacy" : "new-style", S.recycle ? " recycling handles" : "", S.identity ? " unit=thread-handle" : "", nes, n);
    if (S.user_scheds)
        sim_note("(%d user-defined schedulers) ", S.user_scheds);
    for (int i = 0; i < n; i++) {
        cu *u = &S.U[i];
        u->id = i;
        u->is_task = plan_n(5) == 0;
        u->pool = (int)plan_n(NUP + 1);
        if (S.legacy && u->pool < NUP)
            u->pool = 0;
        u->cur = u->pool;
        u->park = !u->is_task && plan_n(3) == 0;
        u->nsteps = plan_range(1, sim_limit("steps", 6));
        for (int k = 0; k < u->nsteps; k++)
            u->steps[k] = (int)plan_n(NUP + 3); /* 0..NUP: move to that pool; else plain yield */
        if (u->pool < NUP)
            S.expected_creates++;
        if (u->is_task)
            ABT_OK(ABT_task_create(S.P[u->pool], unit_fn, u, &u->th));
        else
            ABT_OK(ABT_thread_create(S.P[u->pool], unit_fn, u, ABT_THREAD_ATTR_NULL, &u->th));
        sim_note("%s%d@%d%s ", u->is_task ? "T" : "U", i, u->pool, u->park ? "/park" : "");
    }
    /* the primary queries parked units (stable: suspended) while the others churn in the
     * same hash bucket, then resumes them */
    int pending = 1;
    while (pending) {
        pending = 0;
        for (int i = 0; i < n; i++) {
            cu *u = &S.U[i];
            if (!u->park || u->resumed_epoch >= 1)
                continue;
            pending = 1;
            if (u->parked_epoch < 1)
                continue;
            ABT_thread_state st;
            ABT_OK(ABT_thread_get_state(u->th, &st));
            if (st != ABT_THREAD_STATE_BLOCKED)
                continue;
            for (int q = 0; q < 3; q++) {
                check_translation(u, u->th);
                ABT_OK(ABT_thread_yield());
            }
            u->resumed_epoch++;
            ABT_OK(ABT_thread_resume(u->th));
            sim_progress();
        }
        ABT_OK(ABT_thread_yield());
    }
    for (int i = 0; i < n; i++) {
        cu *u = &S.U[i];
        if (u->is_task)
            ABT_OK(ABT_task_free(&u->th));
        else
            ABT_OK(ABT_thread_free(&u->th));
        SIM_CHECK(u->done && u->starts == 1, "once:not-exactly-once", "unit %d: starts=%d done=%d", i, u->starts, u->done);
        sim_progress();
    }
    long creates = 0, frees = 0;
    for (int i = 0; i < NUP; i++) {
        creates += S.UP[i].creates;
        frees += S.UP[i].frees;
        SIM_CHECK(S.UP[i].nq == 0, "upool:unit-left-in-pool", "user pool %d still holds %d units", i, S.UP[i].nq);
        SIM_CHECK(S.UP[i].pushes == S.UP[i].pops, "upool:push-pop-mismatch", "user pool %d: %ld pushes, %ld pops", i, S.UP[i].pushes, S.UP[i].pops);
    }
    SIM_CHECK(creates == S.expected_creates, "upool:create-unit-count", "create_unit was called %ld times for %ld associations with user pools", creates, S.expected_creates);
    SIM_CHECK(frees == creates, "upool:free-unit-count", "%ld units created, %ld freed", creates, frees);
    for (int i = 0; i < S.nrec; i++)
        SIM_CHECK(!S.REC[i].alive, "upool:unit-leaked", "unit %#lx was never freed", (unsigned long)S.REC[i].handle);
    for (int e = 0; e < nes; e++) {
        ABT_OK(ABT_xstream_join(S.xs[e]));
        ABT_OK(ABT_xstream_free(&S.xs[e]));
    }
    for (int i = 0; i < NUP; i++)
        ABT_OK(ABT_pool_free(&S.UP[i].pool));
    ABT_OK(ABT_pool_free(&S.builtin));
    if (!S.legacy)
        ABT_OK(ABT_pool_user_def_free(&def));
    sim_count("c14.translation_queries", (uint64_t)S.queries);
    sim_count("c14.units_created", (uint64_t)creates);
    sim_count("c14.legacy_pop_timedwait_handouts", (uint64_t)l_timedwait_handouts);
    l_timedwait_handouts = 0;
    sim_count("c14.handles_recycled", (uint64_t)S.recycled);
    ABT_OK(ABT_finalize());
    sim_ledger_check_empty("after ABT_finalize");
}
SIM_WORKLOAD("C14", "user-pools", run_c14, 10)

/* ---- scenario "bulk": the pool operations a program can call directly on a user pool that
 * is not attached to any scheduler yet (ABT_pool_pop_threads / push_threads / pop_thread /
 * push_thread); for the legacy ABT_pool_def these go through the library's wrappers.  The
 * library must take exactly as many units out of the pool as it hands to the caller. ---- */
static int builtin_priv;
static void n_pop_many(ABT_pool pool, ABT_thread *threads, size_t max, size_t *num, ABT_pool_context ctx)
{
    (void)ctx;
    size_t k = 0;
    while (k < max) {
        urec *r = do_pop(pool);
        if (!r)
            break;
        threads[k++] = r->thread;
    }
    *num = k;
}
static void n_push_many(ABT_pool pool, const ABT_unit *units, size_t n, ABT_pool_context ctx)
{
    (void)ctx;
    for (size_t i = 0; i < n; i++)
        do_push(pool, units[i]);
}
static volatile int bulk_runs[MAXU];
static void bulk_fn(void *arg)
{
    int i = (int)(long)arg;
    bulk_runs[i]++;
    SIM_CHECK(bulk_runs[i] == 1, "once:started-twice", "unit %d started twice", i);
    sim_progress();
}
static void run_c14_bulk(void)
{
    memset(&S, 0, sizeof S);
    memset((void *)bulk_runs, 0, sizeof bulk_runs);
    wl_env_swarm();
    ABT_OK(ABT_init(0, NULL));
    S.legacy = plan_bool();
    S.recycle = plan_bool();
    S.identity = !S.legacy && plan_n(3) == 0;
    ABT_pool_user_def def = NULL;
    ABT_pool_def ldef;
    /* two user pools (legacy definitions cannot tell their pools apart in create: one) and a
     * built-in pool; work units travel between them in batches */
    int nup = S.legacy ? 1 : NUP;
    if (!S.legacy) {
        ABT_OK(ABT_pool_user_def_create(n_create_unit, n_free_unit, n_is_empty, n_pop, n_push, &def));
        ABT_OK(ABT_pool_user_def_set_get_size(def, n_get_size));
        ABT_OK(ABT_pool_user_def_set_pop_many(def, n_pop_many));
        ABT_OK(ABT_pool_user_def_set_push_many(def, n_push_many));
        for (int i = 0; i < nup; i++)
            ABT_OK(ABT_pool_create(def, ABT_POOL_CONFIG_NULL, &S.UP[i].pool));
        ABT_OK(ABT_pool_user_def_free(&def));
    } else {
        memset(&ldef, 0, sizeof ldef);
        ldef.access = ABT_POOL_ACCESS_MPMC;
        ldef.u_create_from_thread = l_create;
        ldef.u_free = l_free;
        ldef.p_init = l_init;
        ldef.p_get_size = l_get_size;
        ldef.p_push = l_push;
        ldef.p_pop = l_pop;
        ABT_OK(ABT_pool_create(&ldef, ABT_POOL_CONFIG_NULL, &S.UP[0].pool));
        S.UP[1].pool = ABT_POOL_NULL;
    }
    {
        /* the built-in pool next to them: any kind and any access mode (one caller does everything
         * here, which every access mode allows) */
        static const ABT_pool_kind bk[] = { ABT_POOL_FIFO, ABT_POOL_FIFO_WAIT, ABT_POOL_RANDWS };
        static const ABT_pool_access ba[] = { ABT_POOL_ACCESS_PRIV, ABT_POOL_ACCESS_SPSC, ABT_POOL_ACCESS_MPSC, ABT_POOL_ACCESS_SPMC, ABT_POOL_ACCESS_MPMC };
        int k = (int)plan_n(3), a = (int)plan_n(5);
        ABT_OK(ABT_pool_create_basic(bk[k], ba[a], ABT_FALSE, &S.builtin));
        builtin_priv = a == 0;
        sim_note("builtin=%s/%d ", wl_pool_names[k], a);
    }
    ABT_pool P[NUP + 1];
    int np = 0;
    for (int i = 0; i < nup; i++)
        P[np++] = S.UP[i].pool;
    P[np++] = S.builtin;
    c14_legacy_target = S.UP[0].pool;
    int n = plan_range(1, MAXU);
    sim_note("C14 bulk %s%s pools=%d units=%d: ", S.legacy ? "legacy" : "new-style", S.identity ? " unit=thread-handle" : "", np, n);
    ABT_thread th[MAXU];
    int where[MAXU]; /* index into P */
    long expect_creates = 0;
    for (int i = 0; i < n; i++) {
        where[i] = (int)plan_n((uint32_t)np);
        ABT_OK(ABT_thread_create(P[where[i]], bulk_fn, (void *)(long)i, ABT_THREAD_ATTR_NULL, &th[i]));
        if (where[i] < nup)
            expect_creates++;
    }
    int rounds = plan_range(1, 5);
    for (int r = 0; r < rounds; r++) {
        int src = (int)plan_n((uint32_t)np), dst = (int)plan_n((uint32_t)np);
        int queued = 0;
        for (int i = 0; i < n; i++)
            queued += where[i] == src;
        size_t len = 1 + (size_t)plan_n((uint32_t)n + 2), num = 99;
        ABT_thread out[MAXU + 4];
        long pops0 = src < nup ? S.UP[src].pops : 0;
        int how = (int)plan_n(3);
        if (how == 0) {
            ABT_OK(ABT_pool_pop_threads(P[src], out, len, &num));
        } else if (how == 1) {
            ABT_OK(ABT_pool_pop_threads_ex(P[src], out, len, &num, ABT_POOL_CONTEXT_OP_POOL_OTHER));
        } else {
            num = 0;
            for (size_t k = 0; k < len; k++) {
                ABT_thread t = ABT_THREAD_NULL;
                ABT_OK(ABT_pool_pop_thread(P[src], &t));
                if (t == ABT_THREAD_NULL)
                    break;
                out[num++] = t;
            }
        }
        size_t want = len < (size_t)queued ? len : (size_t)queued;
        SIM_CHECK(num == want, "upool:pop-many-count", "popping up to %zu units from a pool of %d returned %zu", len, queued, num);
        if (src < nup)
            SIM_CHECK(S.UP[src].pops - pops0 == (long)num, "upool:unit-dropped", "the runtime took %ld units out of the user pool but handed %zu to the caller", S.UP[src].pops - pops0,
                      num);
        for (size_t a = 0; a < num; a++) {
            int idx = -1;
            for (int i = 0; i < n; i++)
                if (out[a] == th[i])
                    idx = i;
            SIM_CHECK(idx >= 0 && where[idx] == src, "upool:wrong-translation", "a bulk pop from pool %d returned a handle that is not a work unit of that pool", src);
            for (size_t b = 0; b < a; b++)
                SIM_CHECK(out[a] != out[b], "upool:unit-popped-twice", "a bulk pop returned the same work unit twice");
            where[idx] = dst;
            if (dst < nup && dst != src)
                expect_creates++; /* a new association with a user pool */
        }
        size_t sz = 99;
        ABT_OK(ABT_pool_get_size(P[src], &sz));
        SIM_CHECK(sz == (size_t)queued - num, "upool:size", "pool size %zu after popping %zu of %d units", sz, num, queued);
        /* hand them to dst (possibly another pool: the units are re-associated, the user pools'
         * own checks in push/create_unit/free_unit see every handle that crosses) */
        if (num) {
            if (plan_bool())
                ABT_OK(ABT_pool_push_threads(P[dst], out, num));
            else
                for (size_t a = 0; a < num; a++)
                    ABT_OK(ABT_pool_push_thread(P[dst], out[a]));
        }
        int indst = 0;
        for (int i = 0; i < n; i++)
            indst += where[i] == dst;
        ABT_OK(ABT_pool_get_size(P[dst], &sz));
        SIM_CHECK(sz == (size_t)indst, "upool:size", "pool %d holds %zu units after the batch was pushed, %d expected", dst, sz, indst);
        S.queries++;
        sim_progress();
    }
    /* now let a stream run them */
    ABT_xstream xs;
    ABT_pool handover = ABT_POOL_NULL;
    if (builtin_priv) {
        /* a private pool stays with the stream that used it so far: its units move on */
        ABT_OK(ABT_pool_create_basic(ABT_POOL_FIFO, ABT_POOL_ACCESS_MPMC, ABT_FALSE, &handover));
        for (;;) {
            ABT_thread t = ABT_THREAD_NULL;
            ABT_OK(ABT_pool_pop_thread(S.builtin, &t));
            if (t == ABT_THREAD_NULL)
                break;
            ABT_OK(ABT_pool_push_thread(handover, t));
        }
        P[np - 1] = handover;
    }
    ABT_OK(ABT_xstream_create_basic(ABT_SCHED_BASIC, np, P, ABT_SCHED_CONFIG_NULL, &xs));
    for (int i = 0; i < n; i++) {
        ABT_OK(ABT_thread_free(&th[i]));
        SIM_CHECK(bulk_runs[i] == 1, "once:not-exactly-once", "unit %d ran %d times", i, bulk_runs[i]);
    }
    ABT_OK(ABT_xstream_join(xs));
    ABT_OK(ABT_xstream_free(&xs));
    long creates = 0, frees = 0;
    for (int i = 0; i < nup; i++) {
        creates += S.UP[i].creates;
        frees += S.UP[i].frees;
    }
    SIM_CHECK(creates == expect_creates, "upool:create-unit-count", "create_unit was called %ld times for %ld associations with user pools", creates, expect_creates);
    SIM_CHECK(frees == creates, "upool:free-unit-count", "%ld units created, %ld freed", creates, frees);
    for (int i = 0; i < nup; i++)
        ABT_OK(ABT_pool_free(&S.UP[i].pool));
    ABT_OK(ABT_pool_free(&S.builtin));
    if (handover != ABT_POOL_NULL)
        ABT_OK(ABT_pool_free(&handover));
    ABT_OK(ABT_finalize());
    sim_ledger_check_empty("after ABT_finalize");
    sim_count("c14.bulk_rounds", (uint64_t)S.queries);
}
SIM_WORKLOAD("C14", "bulk", run_c14_bulk, 3)
/* C01: a batch operation hands over exactly the units it took out; none is dropped on the way */
static void run_c01_bulk(void)
{
    run_c14_bulk();
}
SIM_WORKLOAD("C01", "bulk", run_c01_bulk, 1)

/* ---- "dispatch": the unit-handle routines that a hand-written scheduler uses to place work.
 * Units are created in staging pools that no scheduler serves (a built-in one and a user-defined
 * one); a dispatcher takes them out as ABT_unit handles (ABT_pool_pop) and places each one with
 * ABT_pool_push(pool, unit) into a worker pool (built-in or user-defined, each served by its own
 * stream), or a dispatching scheduler runs it with ABT_xstream_run_unit(unit, pool) naming one of
 * its own worker pools.  From then on the unit belongs to the pool named in that call: that is
 * where it goes at every yield, what it reads as its last pool, and the staging pool never sees
 * it again; the unit handle is re-created and released as the unit crosses pool kinds. ---- */
#define DSP_MAXU 8
typedef struct du {
    int id, is_task, from, to, yields, via_sched;
    ABT_thread th;
    volatile int starts, done;
} du;
static struct {
    du U[DSP_MAXU];
    int n;
    ABT_pool st[2], w[2]; /* staging / worker: [0] built-in, [1] user-defined (S.UP[0], S.UP[1]) */
    ABT_pool dsp_own;     /* the dispatching scheduler's own pool */
    volatile int dsp_left; /* units the dispatching scheduler still has to run */
    long placed[2][2], run_unit_calls;
} D;

static void dsp_check_pool(du *u, const char *when)
{
    ABT_pool p = ABT_POOL_NULL;
    ABT_OK(ABT_self_get_last_pool(&p));
    SIM_CHECK(p == D.w[u->to], "upool:wrong-pool-after-dispatch", "unit %d (%s): placed in worker pool %d (%s), it reads %s as its pool", u->id, when, u->to,
              u->to ? "user-defined" : "built-in", p == D.st[0] ? "the built-in staging pool" : p == D.st[1] ? "the user-defined staging pool" : p == D.w[0] ? "the built-in worker pool" : p == D.w[1] ? "the user-defined worker pool" : "an unknown pool");
    ABT_unit unit;
    ABT_thread self, back = ABT_THREAD_NULL;
    ABT_OK(ABT_self_get_thread(&self));
    ABT_OK(ABT_self_get_unit(&unit));
    ABT_OK(ABT_unit_get_thread(unit, &back));
    SIM_CHECK(back == self, "upool:wrong-translation", "unit %d (%s): ABT_unit_get_thread of its own unit is another work unit", u->id, when);
    if (u->to == 1) {
        urec *r = find_rec_p((uintptr_t)unit, 1);
        SIM_CHECK(r && r->alive && r->thread == self && r->pool == 1, "upool:wrong-translation", "unit %d (%s): its unit handle %#lx is not its live unit in the user-defined worker pool",
                  u->id, when, (unsigned long)(uintptr_t)unit);
    }
}
static ABT_unit bad_unit;
static ABT_pool bad_pool;
static volatile int bad_rc, bad_done;
static void bad_run_unit(void *arg)
{
    (void)arg;
    bad_rc = ABT_xstream_run_unit(bad_unit, bad_pool);
    bad_done = 1;
    sim_progress();
}
static void dsp_fn(void *arg)
{
    du *u = (du *)arg;
    u->starts++;
    SIM_CHECK(u->starts == 1, "once:started-twice", "unit %d started twice", u->id);
    dsp_check_pool(u, "at start");
    for (int i = 0; i < u->yields && !u->is_task; i++) {
        if (i & 1)
            ABT_OK(ABT_self_yield());
        else
            ABT_OK(ABT_thread_yield());
        dsp_check_pool(u, "after a yield");
        sim_progress();
    }
    u->done = 1;
    sim_progress();
}
/* a scheduler that dispatches: it takes units out of the staging pools and runs each one naming
 * one of its worker pools (pools[1], pools[2]); later it serves those worker pools */
static int dsp_sched_init(ABT_sched sched, ABT_sched_config cfg)
{
    (void)sched;
    (void)cfg;
    return ABT_SUCCESS;
}
static void dsp_sched_run(ABT_sched sched)
{
    ABT_pool pools[3];
    ABT_OK(ABT_sched_get_pools(sched, 3, 0, pools));
    for (;;) {
        int ran = 0;
        for (int i = 0; i < D.n; i++) {
            du *u = &D.U[i];
            if (!u->via_sched || u->starts || u->via_sched == 2)
                continue;
            /* take it out of its staging pool as a unit handle */
            ABT_unit unit = ABT_UNIT_NULL;
            ABT_OK(ABT_pool_pop(D.st[u->from], &unit));
            if (unit == ABT_UNIT_NULL)
                continue;
            ABT_thread t = ABT_THREAD_NULL;
            ABT_OK(ABT_unit_get_thread(unit, &t));
            du *v = NULL;
            for (int k = 0; k < D.n; k++)
                if (D.U[k].th == t)
                    v = &D.U[k];
            SIM_CHECK(v && v->from == u->from, "upool:wrong-translation", "ABT_pool_pop of a staging pool returned a unit that was never put there");
            if (!v->via_sched) {
                /* it belongs to the other dispatcher: put it back where it was */
                ABT_OK(ABT_pool_push(D.st[v->from], unit));
                continue;
            }
            v->via_sched = 2;
            ABT_OK(ABT_unit_set_associated_pool(unit, D.w[v->to])); /* documented as a no-op */
            D.run_unit_calls++;
            D.placed[v->from][v->to]++;
            if (v->id & 1)
                ABT_OK(ABT_self_schedule(t, D.w[v->to])); /* the work-unit-handle spelling of the same */
            else
                ABT_OK(ABT_xstream_run_unit(unit, D.w[v->to]));
            D.dsp_left--;
            ran = 1;
            sim_progress();
        }
        for (int k = 0; k < 3; k++) {
            ABT_thread t = ABT_THREAD_NULL;
            ABT_OK(ABT_pool_pop_thread(pools[k], &t));
            if (t != ABT_THREAD_NULL) {
                ABT_OK(ABT_self_schedule(t, ABT_POOL_NULL));
                ran = 1;
            }
        }
        ABT_bool stop = ABT_FALSE;
        ABT_OK(ABT_sched_has_to_stop(sched, &stop));
        if (stop == ABT_TRUE)
            break;
        ABT_OK(ABT_xstream_check_events(sched));
        if (!ran)
            sim_yield();
    }
}
static int dsp_sched_free(ABT_sched sched)
{
    (void)sched;
    return ABT_SUCCESS;
}

static void run_c14_dispatch(void)
{
    memset(&S, 0, sizeof S);
    memset(&D, 0, sizeof D);
    wl_env_swarm();
    ABT_OK(ABT_init(0, NULL));
    S.recycle = plan_bool();
    S.identity = !S.legacy && plan_n(3) == 0;
    ABT_pool_user_def def = NULL;
    ABT_OK(ABT_pool_user_def_create(n_create_unit, n_free_unit, n_is_empty, n_pop, n_push, &def));
    ABT_OK(ABT_pool_user_def_set_get_size(def, n_get_size));
    for (int i = 0; i < NUP; i++)
        ABT_OK(ABT_pool_create(def, ABT_POOL_CONFIG_NULL, &S.UP[i].pool));
    ABT_OK(ABT_pool_user_def_free(&def));
    ABT_OK(ABT_pool_create_basic(plan_bool() ? ABT_POOL_FIFO : ABT_POOL_RANDWS, ABT_POOL_ACCESS_MPMC, ABT_FALSE, &D.st[0]));
    ABT_OK(ABT_pool_create_basic(plan_bool() ? ABT_POOL_FIFO : ABT_POOL_FIFO_WAIT, ABT_POOL_ACCESS_MPMC, ABT_FALSE, &D.w[0]));
    ABT_OK(ABT_pool_create_basic(ABT_POOL_FIFO, ABT_POOL_ACCESS_MPMC, ABT_FALSE, &D.dsp_own));
    D.st[1] = S.UP[0].pool;
    D.w[1] = S.UP[1].pool;
    D.n = plan_range(1, sim_limit("units", DSP_MAXU));
    int use_sched = plan_bool();
    sim_note("C14 dispatch units=%d%s%s:", D.n, use_sched ? " dispatching-scheduler" : "", S.identity ? " unit=thread-handle" : "");
    long expect_creates = 0;
    for (int i = 0; i < D.n; i++) {
        du *u = &D.U[i];
        u->id = i;
        u->is_task = plan_n(4) == 0;
        u->from = (int)plan_n(2);
        u->to = (int)plan_n(2);
        u->yields = (int)plan_n(4);
        u->via_sched = use_sched && plan_bool();
        sim_note(" %s:%s>%s/y%d%s", u->is_task ? "task" : "ult", u->from ? "U" : "B", u->to ? "U" : "B", u->yields, u->via_sched ? "/run_unit" : "");
        if (u->is_task)
            ABT_OK(ABT_task_create(D.st[u->from], dsp_fn, u, &u->th));
        else
            ABT_OK(ABT_thread_create(D.st[u->from], dsp_fn, u, ABT_THREAD_ATTR_NULL, &u->th));
        expect_creates += u->from == 1;
        expect_creates += u->to == 1; /* from U to the other U as well: another pool, another unit */
        D.dsp_left += u->via_sched != 0;
    }
    /* the streams that serve the worker pools (and the dispatching scheduler) */
    ABT_xstream xs[3] = { ABT_XSTREAM_NULL, ABT_XSTREAM_NULL, ABT_XSTREAM_NULL };
    ABT_sched dsched = ABT_SCHED_NULL;
    int one_stream = plan_bool();
    if (use_sched) {
        ABT_sched_def sdef = { ABT_SCHED_TYPE_ULT, dsp_sched_init, dsp_sched_run, dsp_sched_free, NULL };
        ABT_pool sp[3] = { D.dsp_own, D.w[0], D.w[1] };
        ABT_OK(ABT_sched_create(&sdef, 3, sp, ABT_SCHED_CONFIG_NULL, &dsched));
        ABT_OK(ABT_xstream_create(dsched, &xs[0]));
    } else if (one_stream) {
        ABT_OK(ABT_xstream_create_basic(ABT_SCHED_BASIC, 2, D.w, ABT_SCHED_CONFIG_NULL, &xs[0]));
    } else {
        ABT_OK(ABT_xstream_create_basic(ABT_SCHED_BASIC, 1, &D.w[0], ABT_SCHED_CONFIG_NULL, &xs[0]));
        ABT_OK(ABT_xstream_create_basic(ABT_SCHED_BASIC, 1, &D.w[1], ABT_SCHED_CONFIG_NULL, &xs[1]));
    }
    /* the primary ULT dispatches the rest with ABT_pool_push(pool, unit) */
    int left = 0;
    for (int i = 0; i < D.n; i++)
        left += !D.U[i].via_sched;
    while (left > 0) {
        int progress = 0;
        for (int f = 0; f < 2; f++) {
            ABT_unit unit = ABT_UNIT_NULL;
            ABT_OK(ABT_pool_pop(D.st[f], &unit));
            if (unit == ABT_UNIT_NULL)
                continue;
            ABT_thread t = ABT_THREAD_NULL;
            ABT_OK(ABT_unit_get_thread(unit, &t));
            du *v = NULL;
            for (int k = 0; k < D.n; k++)
                if (D.U[k].th == t)
                    v = &D.U[k];
            SIM_CHECK(v && v->from == f && !v->starts, "upool:wrong-translation", "ABT_pool_pop of staging pool %d returned a unit that was never put there", f);
            if (v->via_sched) {
                ABT_OK(ABT_pool_push(D.st[f], unit)); /* the scheduler's: back to where it was (same pool: same unit) */
                continue;
            }
            ABT_OK(ABT_unit_set_associated_pool(unit, D.w[v->to]));
            if ((v->id & 3) == 2) {
                /* a caller that cannot run a unit (an external thread) tries: the call is refused
                 * and the unit is what and where it was */
                bad_unit = unit;
                bad_pool = D.w[v->to];
                bad_rc = 12345;
                bad_done = 0;
                int tid = sim_thread_create(bad_run_unit, NULL);
                while (!bad_done)
                    ABT_OK(ABT_thread_yield());
                sim_thread_join(tid);
                SIM_CHECK(bad_rc != ABT_SUCCESS, "upool:run-unit-by-external-thread", "ABT_xstream_run_unit called by an external thread returned ABT_SUCCESS");
                ABT_thread t2 = ABT_THREAD_NULL;
                ABT_unit u2 = ABT_UNIT_NULL;
                ABT_pool lp2 = ABT_POOL_NULL;
                ABT_OK(ABT_unit_get_thread(unit, &t2));
                ABT_OK(ABT_thread_get_unit(t, &u2));
                ABT_OK(ABT_thread_get_last_pool(t, &lp2));
                SIM_CHECK(t2 == t && u2 == unit && lp2 == D.st[f], "upool:wrong-translation",
                          "after the refused ABT_xstream_run_unit the unit translates to %p (was %p), the work unit's unit is %p (was %p) and its pool %s", (void *)t2, (void *)t, (void *)u2,
                          (void *)unit, lp2 == D.st[f] ? "is unchanged" : "changed");
                sim_count("c14.run_unit_refused_for_external_thread", 1);
            }
            D.placed[f][v->to]++;
            ABT_OK(ABT_pool_push(D.w[v->to], unit));
            left--;
            progress = 1;
            sim_progress();
        }
        if (!progress)
            ABT_OK(ABT_thread_yield());
    }
    for (int i = 0; i < D.n; i++) {
        du *u = &D.U[i];
        ABT_OK(ABT_thread_join(u->th));
        SIM_CHECK(u->starts == 1 && u->done == 1, "once:not-exactly-once", "unit %d has starts=%d done=%d when its join returned", i, u->starts, u->done);
        ABT_pool lp;
        ABT_OK(ABT_thread_get_last_pool(u->th, &lp));
        SIM_CHECK(lp == D.w[u->to], "upool:wrong-pool-after-dispatch", "unit %d: after its end its last pool is not the worker pool it was placed in", i);
        ABT_OK(ABT_thread_free(&u->th));
        sim_progress();
    }
    /* nothing ever came back to a staging pool */
    for (int f = 0; f < 2; f++) {
        size_t sz = 9, tot = 9;
        ABT_OK(ABT_pool_get_size(D.st[f], &sz));
        ABT_OK(ABT_pool_get_total_size(D.st[f], &tot));
        SIM_CHECK(sz == 0 && tot == 0, "upool:staging-not-empty", "%s staging pool: size %zu, total size %zu after every unit was dispatched and joined", f ? "user-defined" : "built-in", sz, tot);
    }
    for (int k = 0; k < 3; k++)
        if (xs[k] != ABT_XSTREAM_NULL) {
            ABT_OK(ABT_xstream_join(xs[k]));
            ABT_OK(ABT_xstream_free(&xs[k]));
        }
    if (dsched != ABT_SCHED_NULL)
        ABT_OK(ABT_sched_free(&dsched)); /* made by ABT_sched_create: not freed with its stream */
    long creates = 0, frees = 0;
    for (int i = 0; i < NUP; i++) {
        creates += S.UP[i].creates;
        frees += S.UP[i].frees;
    }
    SIM_CHECK(creates == expect_creates, "upool:create-unit-count", "create_unit was called %ld times for %ld associations with user pools", creates, expect_creates);
    SIM_CHECK(frees == creates, "upool:free-unit-count", "%ld units created, %ld freed", creates, frees);
    for (int i = 0; i < NUP; i++)
        ABT_OK(ABT_pool_free(&S.UP[i].pool));
    ABT_OK(ABT_pool_free(&D.st[0]));
    ABT_OK(ABT_pool_free(&D.w[0]));
    ABT_OK(ABT_pool_free(&D.dsp_own));
    ABT_OK(ABT_finalize());
    sim_ledger_check_empty("after ABT_finalize");
    sim_count("c14.dispatch_builtin_to_builtin", (uint64_t)D.placed[0][0]);
    sim_count("c14.dispatch_builtin_to_user", (uint64_t)D.placed[0][1]);
    sim_count("c14.dispatch_user_to_builtin", (uint64_t)D.placed[1][0]);
    sim_count("c14.dispatch_user_to_user", (uint64_t)D.placed[1][1]);
    sim_count("c14.dispatch_run_unit", (uint64_t)D.run_unit_calls);
}
static void run_c14_dispatch_c01(void)
{
    run_c14_dispatch();
}
SIM_WORKLOAD("C14", "dispatch", run_c14_dispatch, 4)
SIM_WORKLOAD("C01", "dispatch", run_c14_dispatch_c01, 2)
