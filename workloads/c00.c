/* C00: self-test workloads of the simulator (not a property) */
#include "wl_common.h"
static void run_noop(void) {}
static void run_init(void)
{
    ABT_OK(ABT_init(0, NULL));
    ABT_OK(ABT_finalize());
}
SIM_WORKLOAD("C00", "noop", run_noop, 1)
SIM_WORKLOAD("C00", "init", run_init, 1)
