/* C01: every work unit runs exactly once to completion; none is lost or duplicated */
#include "wl_common.h"

#define MAXU 32
#define MAXSTEP 8
enum { ST_YIELD = 0, ST_MUTEX, ST_CREATE, ST_JOIN, ST_PAUSE };
enum { CR_CREATE = 0, CR_ON_XSTREAM, CR_CREATE_TO, CR_N };
enum { PARENT_PRIMARY = -1 }; /* parent <= -2: external thread -(p+2) */

typedef struct unit {
    int id, is_task, named, pool, parent, how, on_es;
    int nsteps, steps[MAXSTEP], sarg[MAXSTEP];
    int creator_joins; /* the creator frees the handle itself */
    int is_creator;
    ABT_thread th;
    volatile int created, freed;
    volatile int starts, completions, expected;
    uint64_t magic;
    int revive;
    int late_cancel; /* a cancellation request arrives after the unit's last scheduling point */
    volatile int at_end, cancel_issued;
} unit;

static struct {
    wl_rt rt;
    unit U[MAXU];
    int n, next;
    ABT_mutex mtx;
    ABT_mutex_memory mtx_mem WL_ALIGNED_MEMORY; /* static: unnamed units may use it until ABT_finalize */
    long protected_counter;
    int ext_done[4];
    int stacked;
    volatile int canceller_done;
} S;

static void unit_ult(void *arg);
static void unit_task(void *arg);
static void revived_fn(void *arg);

static void check_unit_done(unit *u, const char *when)
{
    SIM_CHECK(u->starts == u->expected && u->completions == u->expected, "once:not-exactly-once",
              "unit %d (%s,%s,pool %d) has starts=%d completions=%d but %d expected %s", u->id, u->is_task ? "tasklet" : "ULT", u->named ? "named" : "unnamed", u->pool,
              u->starts, u->completions, u->expected, when);
}

static void create_unit(unit *u, int creator_is_ult)
{
    ABT_thread *ph = u->named ? &u->th : NULL;
    void (*fn)(void *) = u->is_task ? unit_task : unit_ult;
    u->expected = 1;
    int how = u->how;
    if (how == CR_CREATE_TO && (!creator_is_ult || u->is_task))
        how = CR_CREATE;
    if (how == CR_ON_XSTREAM) {
        if (u->is_task)
            ABT_OK(ABT_task_create_on_xstream(S.rt.xs[u->on_es], fn, u, ph));
        else
            ABT_OK(ABT_thread_create_on_xstream(S.rt.xs[u->on_es], fn, u, ABT_THREAD_ATTR_NULL, ph));
    } else if (how == CR_CREATE_TO) {
        ABT_OK(ABT_thread_create_to(S.rt.pools[u->pool], fn, u, ABT_THREAD_ATTR_NULL, ph));
    } else if (u->is_task) {
        ABT_OK(ABT_task_create(S.rt.pools[u->pool], fn, u, ph));
    } else {
        ABT_OK(ABT_thread_create(S.rt.pools[u->pool], fn, u, ABT_THREAD_ATTR_NULL, ph));
    }
    u->created = 1;
    sim_progress();
}

static void free_unit(unit *u, const char *when)
{
    ABT_OK(ABT_thread_free(&u->th));
    SIM_CHECK(u->th == ABT_THREAD_NULL, "once:handle-not-null", "ABT_thread_free left the handle of unit %d non-NULL", u->id);
    check_unit_done(u, when);
    u->freed = 1;
    sim_progress();
}

/* executes the step list of a unit / the primary / an external thread */
static void run_steps(int self, int kind /* AK_* */, int nsteps, const int *steps, const int *sarg)
{
    for (int i = 0; i < nsteps; i++) {
        switch (steps[i]) {
            case ST_YIELD:
                if (kind == AK_ULT)
                    ABT_OK(ABT_thread_yield());
                else
                    sim_yield();
                break;
            case ST_PAUSE:
                sim_yield();
                break;
            case ST_MUTEX: {
                if (kind == AK_TASKLET) {
                    /* a tasklet must not block its stream on a ULT that may sit in that stream's pool */
                    if (ABT_mutex_trylock(S.mtx) != ABT_SUCCESS)
                        break;
                } else
                    ABT_OK(ABT_mutex_lock(S.mtx));
                long c = S.protected_counter;
                sim_yield();
                S.protected_counter = c + 1;
                ABT_OK(ABT_mutex_unlock(S.mtx));
                break;
            }
            case ST_CREATE:
                create_unit(&S.U[sarg[i]], kind == AK_ULT);
                break;
            case ST_JOIN: {
                unit *c = &S.U[sarg[i]];
                free_unit(c, "when its creator's ABT_thread_free returned");
                break;
            }
        }
        sim_progress();
    }
    (void)self;
}

static void unit_enter(unit *u, void (*fn)(void *))
{
    SIM_CHECK(u->magic == (0xabcd0000ULL ^ (uint64_t)u->id), "once:wrong-argument", "a work unit received a corrupted argument");
    u->starts++;
    SIM_CHECK(u->starts <= u->expected, "once:started-twice", "unit %d started %d times (expected %d)", u->id, u->starts, u->expected);
    /* the runtime must report the function and argument it was created with */
    void *a = NULL;
    ABT_OK(ABT_self_get_arg(&a));
    SIM_CHECK(a == (void *)u, "once:wrong-argument", "ABT_self_get_arg of unit %d returned another unit's argument", u->id);
    void (*f)(void *) = NULL;
    ABT_OK(ABT_self_get_thread_func(&f));
    SIM_CHECK(f == fn, "once:wrong-function", "unit %d runs with another unit's function", u->id);
    ABT_unit_type ty;
    ABT_OK(ABT_self_get_type(&ty));
    SIM_CHECK(ty == (u->is_task ? ABT_UNIT_TYPE_TASK : ABT_UNIT_TYPE_THREAD), "once:wrong-kind", "unit %d runs as the wrong kind of work unit", u->id);
}

/* A unit that is going to be revived may receive a cancellation request while it is running
 * but past its last scheduling point: it then completes normally, and the stale request must
 * not leak into the revived incarnation, which was never cancelled. */
static void late_cancel_window(unit *u)
{
    if (!u->late_cancel)
        return;
    u->at_end = 1;
    while (!u->cancel_issued)
        sim_yield();
}
static void canceller_main(void *arg)
{
    (void)arg;
    for (;;) {
        int pending = 0;
        for (int i = 0; i < S.n; i++) {
            unit *u = &S.U[i];
            if (!u->late_cancel || u->cancel_issued)
                continue;
            pending = 1;
            if (u->at_end && u->created) {
                ABT_OK(ABT_thread_cancel(u->th));
                u->cancel_issued = 1;
                sim_count("c01.late_cancels_before_revive", 1);
                sim_progress();
            }
        }
        if (!pending)
            break;
        sim_yield();
    }
    S.canceller_done = 1;
}

static void unit_ult(void *arg)
{
    unit *u = (unit *)arg;
    unit_enter(u, unit_ult);
    run_steps(u->id, AK_ULT, u->nsteps, u->steps, u->sarg);
    late_cancel_window(u);
    u->completions++;
    sim_progress();
}
static void unit_task(void *arg)
{
    unit *u = (unit *)arg;
    unit_enter(u, unit_task);
    run_steps(u->id, AK_TASKLET, u->nsteps, u->steps, u->sarg);
    late_cancel_window(u);
    u->completions++;
    sim_progress();
}
static void revived_fn(void *arg)
{
    unit *u = (unit *)arg;
    unit_enter(u, revived_fn);
    if (!u->is_task)
        ABT_OK(ABT_thread_yield());
    u->completions++;
    sim_progress();
}

typedef struct ext_ctx {
    int idx, nsteps, steps[MAXSTEP], sarg[MAXSTEP];
} ext_ctx;
static ext_ctx EX[4];
static void ext_main(void *arg)
{
    ext_ctx *e = (ext_ctx *)arg;
    run_steps(-2 - e->idx, AK_EXT, e->nsteps, e->steps, e->sarg);
    S.ext_done[e->idx] = 1;
    sim_progress();
}

static void diag(char *buf, int sz)
{
    int k = 0;
    for (int i = 0; i < S.n && k < sz - 30; i++)
        if (S.U[i].completions != S.U[i].expected || !S.U[i].created)
            k += snprintf(buf + k, (size_t)(sz - k), "u%d:%s%s@%d:c%d:s%d/%d/%d ", i, S.U[i].is_task ? "T" : "U", S.U[i].named ? "n" : "u", S.U[i].pool, S.U[i].created,
                          S.U[i].starts, S.U[i].completions, S.U[i].expected);
}

static int add_step(int *nsteps, int *steps, int *sarg, int st, int a)
{
    if (*nsteps >= MAXSTEP)
        return 0;
    steps[*nsteps] = st;
    sarg[*nsteps] = a;
    (*nsteps)++;
    return 1;
}

static void run_c01(void)
{
    memset(&S, 0, sizeof S);
    memset(EX, 0, sizeof EX);
    sim_set_diag_cb(diag);
    wl_rt *rt = &S.rt;
    wl_rt_start(rt, 0);
    {
        ABT_mutex_memory init = ABT_MUTEX_INITIALIZER;
        S.mtx_mem = init;
        S.mtx = ABT_MUTEX_MEMORY_GET_HANDLE(&S.mtx_mem);
    }
    int n = plan_range(1, sim_limit("units", 24));
    int next = (int)plan_n((uint32_t)sim_limit("ext", 3) + 1);
    S.n = n;
    S.next = next;
    int pn = 0, psteps[MAXU + 8], psarg[MAXU + 8]; /* primary's own steps */
    int nlate = 0, canceller = -1;
    sim_note("C01 units=%d ext=%d: ", n, next);
    for (int i = 0; i < n; i++) {
        unit *u = &S.U[i];
        u->id = i;
        u->magic = 0xabcd0000ULL ^ (uint64_t)i;
        u->is_task = plan_n(3) == 0;
        u->named = plan_n(3) != 0;
        u->pool = (int)plan_n((uint32_t)rt->npools);
        u->how = (int)plan_n(CR_N);
        if (u->how == CR_ON_XSTREAM) {
            u->on_es = (int)plan_n((uint32_t)rt->nes);
            u->pool = rt->es_first_pool[u->on_es];
        }
        /* body: yields / mutex sections; children are appended below */
        int body = (int)plan_n(4);
        for (int k = 0; k < body; k++) {
            int st = (int)plan_n(3);
            add_step(&u->nsteps, u->steps, u->sarg, st == 0 ? ST_YIELD : st == 1 ? ST_MUTEX : ST_PAUSE, 0);
        }
    }
    /* parents: the primary, an external thread, or an earlier unit with room for steps */
    for (int i = 0; i < n; i++) {
        unit *u = &S.U[i];
        int r = (int)plan_n(10);
        int parent = PARENT_PRIMARY;
        if (r < 2 && next > 0)
            parent = -2 - (int)plan_n((uint32_t)next);
        else if (r < 7 && i > 0) {
            parent = (int)plan_n((uint32_t)i);
            if (S.U[parent].nsteps >= MAXSTEP - 1)
                parent = PARENT_PRIMARY;
        }
        if (parent <= -2 && EX[-2 - parent].nsteps >= MAXSTEP - 1)
            parent = PARENT_PRIMARY;
        u->parent = parent;
        int cj = u->named && plan_bool();
        if (parent >= 0) {
            unit *p = &S.U[parent];
            p->is_creator = 1;
            add_step(&p->nsteps, p->steps, p->sarg, ST_CREATE, i);
            /* a tasklet never joins: it would block its stream on a unit that may sit in that stream's pool */
            /* ... and a ULT never joins a tasklet: that join is an unbounded yield loop, which
             * under the strict pool priority of the predefined schedulers can starve the pool
             * the tasklet waits in (documented scheduling policy, not a defect) */
            if (cj && !p->is_task && !u->is_task && add_step(&p->nsteps, p->steps, p->sarg, ST_JOIN, i))
                u->creator_joins = 1;
        } else if (parent == PARENT_PRIMARY) {
            psteps[pn] = ST_CREATE;
            psarg[pn++] = i;
        } else {
            ext_ctx *e = &EX[-2 - parent];
            add_step(&e->nsteps, e->steps, e->sarg, ST_CREATE, i);
            if (cj && add_step(&e->nsteps, e->steps, e->sarg, ST_JOIN, i))
                u->creator_joins = 1;
        }
        u->revive = u->named && !u->creator_joins && plan_n(5) == 0;
        /* (not with create_to: the creator gets the handle back only after the unit has run) */
        u->late_cancel = u->revive && u->how != CR_CREATE_TO && plan_bool();
        nlate += u->late_cancel;
        sim_note("%s%s%d<%d@%d%s%s ", u->is_task ? "T" : "U", u->named ? "n" : "u", i, parent, u->pool, u->how == CR_CREATE_TO ? "!to" : u->how == CR_ON_XSTREAM ? "!x" : "",
                 u->creator_joins ? "j" : "");
    }
    /* external threads */
    int ext_tid[4];
    for (int k = 0; k < next; k++) {
        EX[k].idx = k;
        ext_tid[k] = sim_thread_create(ext_main, &EX[k]);
    }
    if (nlate)
        canceller = sim_thread_create(canceller_main, NULL);
    /* the primary creates its children; a batch of plain ULTs may go through create_many */
    {
        int batch[MAXU], nb = 0;
        for (int k = 0; k < pn; k++) {
            unit *u = &S.U[psarg[k]];
            if (!u->is_task && u->named && u->how == CR_CREATE && nb < 8 && plan_bool())
                batch[nb++] = psarg[k];
        }
        if (nb >= 2) {
            ABT_pool pl[8];
            void (*fl[8])(void *);
            void *al[8];
            ABT_thread tl[8];
            for (int k = 0; k < nb; k++) {
                pl[k] = rt->pools[S.U[batch[k]].pool];
                fl[k] = unit_ult;
                al[k] = &S.U[batch[k]];
                S.U[batch[k]].expected = 1;
            }
            ABT_OK(ABT_thread_create_many(nb, pl, fl, al, ABT_THREAD_ATTR_NULL, tl));
            for (int k = 0; k < nb; k++) {
                S.U[batch[k]].th = tl[k];
                S.U[batch[k]].created = 1;
            }
            sim_note("create_many(%d) ", nb);
        }
        for (int k = 0; k < pn; k++)
            if (!S.U[psarg[k]].created)
                create_unit(&S.U[psarg[k]], 1);
    }
    /* wait for the external threads */
    for (int k = 0; k < next; k++) {
        while (!S.ext_done[k])
            ABT_OK(ABT_thread_yield());
        sim_thread_join(ext_tid[k]);
    }
    /* every unit that creates others must have finished before handles are collected and
     * streams are joined (otherwise a creation could race with the join of the only stream
     * serving the target pool, which is the program's error) */
    for (int i = 0; i < n; i++) {
        while (!S.U[i].created || (S.U[i].is_creator && S.U[i].completions < S.U[i].expected))
            ABT_OK(ABT_thread_yield());
    }
    /* revive some named units: join, check, run a second function */
    for (int i = 0; i < n; i++) {
        unit *u = &S.U[i];
        if (!u->revive)
            continue;
        ABT_OK(ABT_thread_join(u->th));
        check_unit_done(u, "when ABT_thread_join returned");
        u->expected = 2;
        if (u->is_task)
            ABT_OK(ABT_task_revive(rt->pools[u->pool], revived_fn, u, &u->th));
        else
            ABT_OK(ABT_thread_revive(rt->pools[u->pool], revived_fn, u, &u->th));
        sim_progress();
    }
    if (canceller >= 0) {
        while (!S.canceller_done)
            ABT_OK(ABT_thread_yield());
        sim_thread_join(canceller);
    }
    for (int i = 0; i < n; i++) {
        unit *u = &S.U[i];
        if (u->named && !u->creator_joins)
            free_unit(u, "when ABT_thread_free returned");
    }
    for (int i = 0; i < n; i++)
        if (S.U[i].named)
            SIM_CHECK(S.U[i].freed, "once:not-joined", "named unit %d was never joined by its creator", i);
    /* streams: joining the only stream that serves a pool completes that pool's units */
    for (int e = 1; e < rt->nes; e++) {
        ABT_OK(ABT_xstream_join(rt->xs[e]));
        rt->joined[e] = 1;
        sim_progress();
        for (int i = 0; i < n; i++)
            if (rt->pool_es[S.U[i].pool] == e)
                check_unit_done(&S.U[i], "when ABT_xstream_join of the only stream serving its pool returned");
    }
    wl_rt_stop(rt);
    for (int i = 0; i < n; i++)
        check_unit_done(&S.U[i], "after ABT_finalize");
}
SIM_WORKLOAD("C01", "forest", run_c01, 10)

/* ---- stacked schedulers: units live in the pool of a scheduler that itself is a work unit ---- */
static void run_c01_stacked(void)
{
    memset(&S, 0, sizeof S);
    sim_set_diag_cb(diag);
    wl_rt *rt = &S.rt;
    /* units that wait for units of the runtime's own pools need stacked schedulers that give the
     * stream back while they have nothing to run (the predefined ones never do); such a
     * scheduler is a perpetual yielder, which the strict pool priority of the predefined main
     * schedulers lets starve lower-priority pools: one pool per stream then */
    int coop = plan_n(3) == 0;
    wl_rt_start(rt, coop ? WL_RT_NO_TOPO2 : 0);
    {
        ABT_mutex_memory init = ABT_MUTEX_INITIALIZER;
        S.mtx_mem = init;
        S.mtx = ABT_MUTEX_MEMORY_GET_HANDLE(&S.mtx_mem);
    }
    int nsched = plan_range(1, 2);
    int n = plan_range(1, sim_limit("units", 12));
    S.n = n;
    static const ABT_sched_predef kinds[] = { ABT_SCHED_BASIC, ABT_SCHED_BASIC_WAIT, ABT_SCHED_PRIO, ABT_SCHED_RANDWS };
    static const ABT_pool_kind pk[] = { ABT_POOL_FIFO, ABT_POOL_FIFO_WAIT, ABT_POOL_RANDWS };
    ABT_pool sp[2];
    ABT_sched ss[2];
    int skind[2];
    for (int k = 0; k < nsched; k++) {
        ABT_OK(ABT_pool_create_basic(pk[plan_n(3)], ABT_POOL_ACCESS_MPMC, ABT_TRUE, &sp[k]));
        skind[k] = coop ? 4 : (int)plan_n(5);
        if (coop)
            ss[k] = wl_make_user_sched_coop(1, &sp[k]);
        else if (skind[k] == 4)
            ss[k] = wl_make_user_sched(1, &sp[k]); /* a user-defined scheduler (ABT_sched_def) */
        else
            ABT_OK(ABT_sched_create_basic(kinds[skind[k]], 1, &sp[k], ABT_SCHED_CONFIG_NULL, &ss[k]));
    }
    sim_note("C01 stacked scheds=%d(%s,%s) units=%d: ", nsched, wl_sched_names[skind[0]], nsched > 1 ? wl_sched_names[skind[1]] : "-", n);
    int nchild = 0;
    for (int i = 0; i < n; i++) {
        unit *u = &S.U[i];
        u->id = i;
        u->magic = 0xabcd0000ULL ^ (uint64_t)i;
        u->is_task = plan_n(3) == 0;
        u->named = plan_bool();
        u->pool = (int)plan_n((uint32_t)nsched); /* index into sp[] here */
        int body = (int)plan_n(4);
        for (int k = 0; k < body; k++) {
            int st = (int)plan_n(3);
            add_step(&u->nsteps, u->steps, u->sarg, st == 0 ? ST_YIELD : st == 1 ? ST_MUTEX : ST_PAUSE, 0);
        }
        if (coop && !u->is_task && nchild < 4 && n + nchild < MAXU && plan_n(2) == 0) {
            /* the unit, run by the stacked scheduler, creates a ULT in a pool of the runtime and
             * joins it: the child is run by another scheduler (a main scheduler), and when it
             * ends it may hand control straight back to the blocked joiner */
            unit *c = &S.U[n + nchild];
            c->id = n + nchild;
            c->magic = 0xabcd0000ULL ^ (uint64_t)c->id;
            c->named = 1;
            c->pool = (int)plan_n((uint32_t)rt->npools);
            c->how = CR_CREATE;
            for (int k = (int)plan_n(3); k > 0; k--)
                add_step(&c->nsteps, c->steps, c->sarg, ST_YIELD, 0);
            add_step(&u->nsteps, u->steps, u->sarg, ST_CREATE, c->id);
            if (plan_bool())
                add_step(&u->nsteps, u->steps, u->sarg, ST_YIELD, 0);
            add_step(&u->nsteps, u->steps, u->sarg, ST_JOIN, c->id);
            if (plan_bool())
                add_step(&u->nsteps, u->steps, u->sarg, ST_YIELD, 0);
            nchild++;
            sim_count("c01.stacked_units_joining_a_child_of_the_runtime", 1);
        }
        u->expected = 1;
        ABT_thread *ph = u->named ? &u->th : NULL;
        if (u->is_task)
            ABT_OK(ABT_task_create(sp[u->pool], unit_task, u, ph));
        else
            ABT_OK(ABT_thread_create(sp[u->pool], unit_ult, u, ABT_THREAD_ATTR_NULL, ph));
        u->created = 1;
        sim_note("%s%s%d@s%d ", u->is_task ? "T" : "U", u->named ? "n" : "u", i, u->pool);
    }
    /* now hand the schedulers (with their populated pools) to pools of the runtime */
    for (int k = 0; k < nsched; k++) {
        /* a finish request issued up front (the handle may die as soon as the scheduler runs):
         * the scheduler must still run everything that is in its pool before it stops */
        if (plan_n(3) == 0) {
            ABT_OK(ABT_sched_finish(ss[k]));
            sim_count("c01.stacked_sched_finish_requests", 1);
        }
        ABT_OK(ABT_pool_add_sched(wl_any_pool(rt), ss[k]));
        sim_progress();
    }
    for (int i = 0; i < n; i++)
        if (S.U[i].named) {
            ABT_OK(ABT_thread_free(&S.U[i].th));
            check_unit_done(&S.U[i], "when ABT_thread_free returned");
            sim_progress();
        }
    /* units that create units finish before the streams are joined (see the assumptions) */
    if (nchild)
        for (int i = 0; i < n; i++)
            while (!S.U[i].is_task && S.U[i].completions < S.U[i].expected)
                ABT_OK(ABT_thread_yield());
    wl_rt_stop(rt);
    S.n = n + nchild;
    for (int i = 0; i < n + nchild; i++)
        check_unit_done(&S.U[i], "after ABT_finalize (unit of a stacked scheduler's pool)");
}
SIM_WORKLOAD("C01", "stacked", run_c01_stacked, 3)
