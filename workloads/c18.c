/* C18: a failed allocation makes the call fail cleanly and leaves the runtime intact
 * (fault enumeration: for every creating routine the k-th allocation-class call of that
 * call fails, k = 1, 2, ... until the armed failure no longer fires) */
#include "wl_common.h"
#include "whitebox.h"

#define POISON ((void *)0x5a5a5a5a5a5a5a50ULL)

typedef struct ctxobj {
    /* pre-existing objects whose observable state must not change */
    ABT_xstream xs;
    ABT_pool pool, pool2;
    ABT_thread blocked; /* a suspended ULT */
    ABT_key key;
    ABT_mutex mtx;
    int populated, concurrent;
    volatile int bg_stop, bg_ticks;
    ABT_thread bg;
    ABT_xstream jxs; /* a secondary stream that was joined and not freed */
} ctxobj;
static ctxobj X;
static volatile int enumerating_on_ext;
static long n_failures, n_success_despite_fault, n_ops_enumerated, n_faults_total;
static int g_res_kinds;

typedef struct snapshot {
    int num_xs, rank;
    size_t psize, ptotal, psize2;
    ABT_thread_state bstate;
    void *keyval;
    ABT_xstream_state xstate;
    ABT_bool mlocked;
    long up_live;          /* units of the user-defined pool that exist */
    ABT_thread_state rstate; /* the terminated ULT that the revive operations use */
    ABT_pool bpool, rpool; /* associated pools of the blocked ULT and of the terminated ULT */
    char upinfo[400];      /* ABT_info_print_pool of the user-defined pool (id, automatic, num_scheds, size, num_blocked, ...) */
} snapshot;

/* ---- a user-defined pool: associating a work unit with it makes the library allocate an
 * entry of its unit -> work-unit map, and calls back create_unit, which may fail too ---- */
#define UPSLOTS 32
typedef struct upstate {
    int inited;
    ABT_pool pool;
    ABT_xstream xs;
    struct { ABT_thread th; int used, queued; } slot[UPSLOTS];
    int q[UPSLOTS], nq, next;
    long creates, frees;
    int fail_next_create, fail_fired;
} upstate;
/* UPS[0]: served by a stream of its own; UPS[1]: a second user-defined pool nobody serves (units
 * are only associated with it).  Each has its own units: a callback of one pool that receives a
 * unit of the other is an error of the library. */
static upstate UPS[2];
#define UP UPS[0]
#define UPB UPS[1]
static upstate *up_cur; /* the pool whose callback is running */
static ABT_sched addsched_pending[64]; /* stacked schedulers that are not automatic: freed once their stream was joined */
static int addsched_npending;
static ABT_thread revive_t;
static upstate *up_of(ABT_pool pool)
{
    return (UPB.inited && pool == UPB.pool) ? &UPB : &UP;
}
#define UP_ENTER(pool_) upstate *upsave_ = up_cur; up_cur = up_of(pool_)
#define UP_LEAVE() up_cur = upsave_

static ABT_unit up18_create_unit_(ABT_pool pool, ABT_thread thread);
static ABT_unit up18_create_unit(ABT_pool pool, ABT_thread thread)
{
    UP_ENTER(pool);
    ABT_unit u = up18_create_unit_(pool, thread);
    UP_LEAVE();
    return u;
}
static ABT_unit up18_create_unit_(ABT_pool pool, ABT_thread thread)
{
#undef UP
#define UP (*up_cur)
    (void)pool;
    if (UP.fail_next_create) {
        UP.fail_next_create = 0;
        UP.fail_fired = 1;
        return ABT_UNIT_NULL;
    }
    /* next fit, not first fit: a handle value the library has not seen before needs a new entry
     * in its unit map (an allocation that can fail); a recycled one finds its old entry */
    for (int n = 0; n < UPSLOTS; n++) {
        int i = (UP.next + n) % UPSLOTS;
        if (!UP.slot[i].used) {
            UP.next = (i + 1) % UPSLOTS;
            UP.slot[i].used = 1;
            UP.slot[i].queued = 0;
            UP.slot[i].th = thread;
            UP.creates++;
            return (ABT_unit)&UP.slot[i];
        }
    }
    sim_fail("infra:c18-user-pool-full", "user pool slots exhausted");
    return ABT_UNIT_NULL;
}
static int up18_slot(ABT_unit unit)
{
    long i = (long)(((char *)unit - (char *)&UP.slot[0]) / (long)sizeof UP.slot[0]);
    SIM_CHECK(i >= 0 && i < UPSLOTS && (void *)&UP.slot[i] == (void *)unit && UP.slot[i].used, "upool:unknown-unit",
              "a callback of user-defined pool #%d received handle %p, which is not a live unit of that pool%s", (int)(up_cur - UPS), (void *)unit,
              ((char *)unit >= (char *)UPS && (char *)unit < (char *)(UPS + 2)) ? " (it is a unit of the other user-defined pool)" : "");
    return (int)i;
}
static void up18_free_unit(ABT_pool pool, ABT_unit unit)
{
    UP_ENTER(pool);
    int i = up18_slot(unit);
    SIM_CHECK(!UP.slot[i].queued, "upool:free-queued-unit", "free_unit called for a unit that is still queued");
    UP.slot[i].used = 0;
    UP.frees++;
    UP_LEAVE();
}
static ABT_bool up18_is_empty(ABT_pool pool)
{
    return up_of(pool)->nq == 0 ? ABT_TRUE : ABT_FALSE;
}
static size_t up18_get_size(ABT_pool pool)
{
    return (size_t)up_of(pool)->nq;
}
static ABT_thread up18_pop(ABT_pool pool, ABT_pool_context ctx)
{
    (void)ctx;
    UP_ENTER(pool);
    ABT_thread r = ABT_THREAD_NULL;
    if (UP.nq > 0) {
        int i = UP.q[0];
        for (int k = 1; k < UP.nq; k++)
            UP.q[k - 1] = UP.q[k];
        UP.nq--;
        UP.slot[i].queued = 0;
        r = UP.slot[i].th;
    }
    UP_LEAVE();
    return r;
}
static void up18_push(ABT_pool pool, ABT_unit unit, ABT_pool_context ctx)
{
    (void)ctx;
    UP_ENTER(pool);
    int i = up18_slot(unit);
    SIM_CHECK(!UP.slot[i].queued, "upool:push-twice", "a unit was pushed while it is already queued");
    UP.slot[i].queued = 1;
    UP.q[UP.nq++] = i;
    UP_LEAVE();
}
#undef UP
#define UP UPS[0]
static int up18_make_def(ABT_pool_user_def *def)
{
    int rc = ABT_pool_user_def_create(up18_create_unit, up18_free_unit, up18_is_empty, up18_pop, up18_push, def);
    if (rc != ABT_SUCCESS)
        return rc;
    ABT_OK(ABT_pool_user_def_set_get_size(*def, up18_get_size));
    return ABT_SUCCESS;
}
static void up18_ensure(void)
{
    if (UP.inited)
        return;
    ABT_pool_user_def def;
    ABT_OK(up18_make_def(&def));
    ABT_OK(ABT_pool_create(def, ABT_POOL_CONFIG_NULL, &UP.pool));
    ABT_OK(ABT_pool_user_def_free(&def));
    ABT_OK(ABT_xstream_create_basic(ABT_SCHED_BASIC, 1, &UP.pool, ABT_SCHED_CONFIG_NULL, &UP.xs));
    UP.inited = 1;
}
static void upb_ensure(void)
{
    if (UPB.inited)
        return;
    ABT_pool_user_def def;
    ABT_OK(up18_make_def(&def));
    ABT_OK(ABT_pool_create(def, ABT_POOL_CONFIG_NULL, &UPB.pool));
    ABT_OK(ABT_pool_user_def_free(&def));
    ABT_OK(ABT_xstream_create_basic(ABT_SCHED_BASIC, 1, &UPB.pool, ABT_SCHED_CONFIG_NULL, &UPB.xs));
    UPB.inited = 1;
}
static void up18_teardown(void)
{
    if (UPB.inited) {
        ABT_OK(ABT_xstream_join(UPB.xs));
        ABT_OK(ABT_xstream_free(&UPB.xs));
        ABT_OK(ABT_pool_free(&UPB.pool));
        SIM_CHECK(UPB.creates == UPB.frees, "upool:unit-leaked", "second user pool: %ld units created, %ld freed", UPB.creates, UPB.frees);
        UPB.inited = 0;
    }
    if (!UP.inited)
        return;
    ABT_OK(ABT_xstream_join(UP.xs));
    ABT_OK(ABT_xstream_free(&UP.xs));
    for (int i = 0; i < addsched_npending; i++)
        ABT_OK(ABT_sched_free(&addsched_pending[i]));
    addsched_npending = 0;
    ABT_OK(ABT_pool_free(&UP.pool));
    SIM_CHECK(UP.creates == UP.frees, "upool:unit-leaked", "user pool: %ld units created, %ld freed", UP.creates, UP.frees);
    UP.inited = 0;
}

static void blocked_fn(void *arg)
{
    (void)arg;
    ABT_OK(ABT_key_set(X.key, (void *)0x1234));
    ABT_OK(ABT_self_suspend());
}
static void bg_fn(void *arg)
{
    (void)arg;
    while (!X.bg_stop) {
        X.bg_ticks++;
        ABT_OK(ABT_thread_yield());
    }
}

static void take(snapshot *s)
{
    memset(s, 0, sizeof *s);
    ABT_OK(ABT_xstream_get_num(&s->num_xs));
    s->up_live = UP.creates - UP.frees + 1000 * (UPB.creates - UPB.frees);
    if (UP.inited) {
        /* everything the library is willing to print about the pool (its stream is idle now) */
        char *buf = NULL;
        size_t len = 0;
        FILE *f = open_memstream(&buf, &len);
        if (f) {
            ABT_OK(ABT_info_print_pool(f, UP.pool));
            fclose(f);
            snprintf(s->upinfo, sizeof s->upinfo, "%s", buf ? buf : "");
            free(buf);
        }
    }
    if (revive_t != ABT_THREAD_NULL) {
        ABT_OK(ABT_thread_get_state(revive_t, &s->rstate));
        ABT_OK(ABT_thread_get_last_pool(revive_t, &s->rpool));
    }
    if (X.populated) {
        ABT_OK(ABT_thread_get_last_pool(X.blocked, &s->bpool));
        ABT_OK(ABT_xstream_get_rank(X.xs, &s->rank));
        ABT_OK(ABT_xstream_get_state(X.xs, &s->xstate));
        if (!enumerating_on_ext) /* (the primary ULT goes in and out of pool2 while it waits) */
            ABT_OK(ABT_pool_get_size(X.pool2, &s->psize2));
        ABT_OK(ABT_thread_get_state(X.blocked, &s->bstate));
        ABT_OK(ABT_thread_get_specific(X.blocked, X.key, &s->keyval));
        if (!X.concurrent) {
            ABT_OK(ABT_pool_get_size(X.pool, &s->psize));
            ABT_OK(ABT_pool_get_total_size(X.pool, &s->ptotal));
        }
    }
}
static void same(const snapshot *a, const snapshot *b, const char *op, int k)
{
    SIM_CHECK(a->num_xs == b->num_xs && a->rank == b->rank && a->xstate == b->xstate && a->psize == b->psize && a->ptotal == b->ptotal && a->psize2 == b->psize2 &&
                  a->bstate == b->bstate && a->keyval == b->keyval && a->up_live == b->up_live && a->rstate == b->rstate && a->bpool == b->bpool && a->rpool == b->rpool && !strcmp(a->upinfo, b->upinfo),
              "fault:state-changed", "%s with allocation #%d failing changed pre-existing objects: num_xstreams %d->%d rank %d->%d pool size %zu->%zu total %zu->%zu blocked state %d->%d key %p->%p user-pool units %ld->%ld terminated ULT state %d->%d pool changed %d/%d user pool info changed %d",
              op, k, a->num_xs, b->num_xs, a->rank, b->rank, a->psize, b->psize, a->ptotal, b->ptotal, (int)a->bstate, (int)b->bstate, a->keyval, b->keyval, a->up_live, b->up_live,
              (int)a->rstate, (int)b->rstate, a->bpool != b->bpool, a->rpool != b->rpool, strcmp(a->upinfo, b->upinfo) != 0);
}

/* ------------------------------------------------------------------ operations */
typedef struct op18 {
    const char *name;
    int (*doit)(void **h);
    void (*undo)(void **h);
    void *nullh;
    int primary_ult_only;
    int upool; /* 1: needs the user-defined pool; 2: and calls its create_unit (which may fail) */
    int on_ext; /* the whole enumeration runs on an external thread (its allocations never come
                 * from a stream-local memory pool: every block is a malloc) */
    void (*prep)(void); /* fault-free preparation before every attempt */
} op18;

static void nop_fn(void *a)
{
    (void)a;
}
static ABT_pool primary_pool;
static ABT_pool target_pool(void)
{
    if (X.populated)
        return X.pool2;
    if (enumerating_on_ext)
        return primary_pool; /* (an external thread has no stream to ask) */
    ABT_xstream xs;
    ABT_pool p;
    ABT_OK(ABT_xstream_self(&xs));
    ABT_OK(ABT_xstream_get_main_pools(xs, 1, &p));
    return p;
}

static int d_xstream_create(void **h)
{
    return ABT_xstream_create(ABT_SCHED_NULL, (ABT_xstream *)h);
}
static int d_xstream_create_basic(void **h)
{
    /* ABT_POOL_NULL entries: the pools are created (and owned) by the routine */
    ABT_pool pools[2] = { ABT_POOL_NULL, ABT_POOL_NULL };
    return ABT_xstream_create_basic(ABT_SCHED_BASIC_WAIT, 2, pools, ABT_SCHED_CONFIG_NULL, (ABT_xstream *)h);
}
static void u_xstream(void **h)
{
    ABT_OK(ABT_xstream_join(*(ABT_xstream *)h));
    ABT_OK(ABT_xstream_free((ABT_xstream *)h));
}
static int d_sched_create_basic(void **h)
{
    return ABT_sched_create_basic(ABT_SCHED_PRIO, 3, NULL, ABT_SCHED_CONFIG_NULL, (ABT_sched *)h);
}
static void u_sched(void **h)
{
    ABT_OK(ABT_sched_free((ABT_sched *)h));
}
static int d_pool_fifo(void **h)
{
    return ABT_pool_create_basic(ABT_POOL_FIFO, ABT_POOL_ACCESS_MPMC, ABT_FALSE, (ABT_pool *)h);
}
static int d_pool_fifo_wait(void **h)
{
    return ABT_pool_create_basic(ABT_POOL_FIFO_WAIT, ABT_POOL_ACCESS_MPMC, ABT_FALSE, (ABT_pool *)h);
}
static int d_pool_randws(void **h)
{
    return ABT_pool_create_basic(ABT_POOL_RANDWS, ABT_POOL_ACCESS_MPMC, ABT_FALSE, (ABT_pool *)h);
}
static void u_pool(void **h)
{
    ABT_OK(ABT_pool_free((ABT_pool *)h));
}
static int d_thread_create(void **h)
{
    return ABT_thread_create(target_pool(), nop_fn, NULL, ABT_THREAD_ATTR_NULL, (ABT_thread *)h);
}
static int d_thread_create_bigstack(void **h)
{
    ABT_thread_attr attr;
    int rc = ABT_thread_attr_create(&attr);
    if (rc != ABT_SUCCESS)
        return rc;
    ABT_OK(ABT_thread_attr_set_stacksize(attr, 70001));
    rc = ABT_thread_create(target_pool(), nop_fn, NULL, attr, (ABT_thread *)h);
    ABT_OK(ABT_thread_attr_free(&attr));
    return rc;
}
static char ustack18[65536];
static int d_thread_create_userstack(void **h)
{
    ABT_thread_attr attr;
    int rc = ABT_thread_attr_create(&attr);
    if (rc != ABT_SUCCESS)
        return rc;
    ABT_OK(ABT_thread_attr_set_stack(attr, ustack18 + 8, 60000));
    rc = ABT_thread_create(target_pool(), nop_fn, NULL, attr, (ABT_thread *)h);
    ABT_OK(ABT_thread_attr_free(&attr));
    return rc;
}
static void cb18(ABT_thread t, void *arg)
{
    (void)t;
    (void)arg;
}
static int d_thread_create_attr_cb(void **h)
{
    /* an attribute that carries a migration callback: the new unit gets its migration record
     * and a key table at creation (two more allocations that can fail) */
    ABT_thread_attr attr;
    int rc = ABT_thread_attr_create(&attr);
    if (rc != ABT_SUCCESS)
        return rc;
    ABT_OK(ABT_thread_attr_set_callback(attr, cb18, NULL));
    rc = ABT_thread_create(target_pool(), nop_fn, NULL, attr, (ABT_thread *)h);
    ABT_OK(ABT_thread_attr_free(&attr));
    return rc;
}
static int d_task_create(void **h)
{
    return ABT_task_create(target_pool(), nop_fn, NULL, (ABT_task *)h);
}
static void u_thread(void **h)
{
    ABT_OK(ABT_thread_free((ABT_thread *)h));
}
static ABT_thread many_h[4];
static int d_thread_create_many(void **h)
{
    ABT_pool pl[4];
    void (*fl[4])(void *);
    void *al[4] = { 0, 0, 0, 0 };
    for (int i = 0; i < 4; i++) {
        pl[i] = target_pool();
        fl[i] = nop_fn;
        many_h[i] = (ABT_thread)POISON;
    }
    int rc = ABT_thread_create_many(4, pl, fl, al, ABT_THREAD_ATTR_NULL, many_h);
    *h = rc == ABT_SUCCESS ? (void *)many_h : POISON;
    if (rc != ABT_SUCCESS) {
        /* the units created before the failing one exist and have handles; every other entry is
         * untouched or the NULL handle -- never something that is not a handle of this call */
        int seen_hole = 0;
        for (int i = 0; i < 4; i++) {
            if (many_h[i] == (ABT_thread)POISON || many_h[i] == ABT_THREAD_NULL) {
                seen_hole = 1;
                continue;
            }
            SIM_CHECK(!seen_hole, "fault:dangling-handle", "ABT_thread_create_many failed with %d; entry %d of the handle array holds %p although an earlier entry was not created", rc, i,
                      (void *)many_h[i]);
            for (int j = 0; j < i; j++)
                SIM_CHECK(many_h[j] != many_h[i], "fault:dangling-handle", "ABT_thread_create_many failed with %d and stored the same handle %p in entries %d and %d", rc, (void *)many_h[i], j, i);
        }
        /* exactly the first `created` entries may be handles: the entry of the unit whose creation
         * failed must not be one */
        for (int i = 0; i < 4; i++)
            if (many_h[i] != (ABT_thread)POISON && many_h[i] != ABT_THREAD_NULL) {
                ABT_thread_state st;
                ABT_OK(ABT_thread_get_state(many_h[i], &st));
                ABT_OK(ABT_thread_free(&many_h[i]));
            }
    }
    return rc;
}
/* a batch large enough to make the memory pools allocate pages inside the call */
#define NMANY 48
static ABT_thread many48_h[NMANY];
static int d_thread_create_many48(void **h)
{
    ABT_pool pl[NMANY];
    void (*fl[NMANY])(void *);
    for (int i = 0; i < NMANY; i++) {
        pl[i] = target_pool();
        fl[i] = nop_fn;
        many48_h[i] = (ABT_thread)POISON;
    }
    int rc = ABT_thread_create_many(NMANY, pl, fl, NULL, ABT_THREAD_ATTR_NULL, many48_h);
    *h = rc == ABT_SUCCESS ? (void *)many48_h : POISON;
    if (rc != ABT_SUCCESS) {
        int seen_hole = 0;
        for (int i = 0; i < NMANY; i++) {
            if (many48_h[i] == (ABT_thread)POISON || many48_h[i] == ABT_THREAD_NULL) {
                seen_hole = 1;
                continue;
            }
            SIM_CHECK(!seen_hole, "fault:dangling-handle", "ABT_thread_create_many failed with %d; entry %d of the handle array holds %p although an earlier entry was not created", rc, i,
                      (void *)many48_h[i]);
            for (int j = 0; j < i; j++)
                SIM_CHECK(many48_h[j] != many48_h[i], "fault:dangling-handle",
                          "ABT_thread_create_many failed with %d and stored the same handle %p in entries %d and %d: the entry of the unit that could not be created is not a handle of its own", rc,
                          (void *)many48_h[i], j, i);
        }
        for (int i = 0; i < NMANY; i++)
            if (many48_h[i] != (ABT_thread)POISON && many48_h[i] != ABT_THREAD_NULL)
                ABT_OK(ABT_thread_free(&many48_h[i]));
    }
    return rc;
}
static void u_thread_many48(void **h)
{
    (void)h;
    for (int i = 0; i < NMANY; i++)
        ABT_OK(ABT_thread_free(&many48_h[i]));
}
static void u_thread_many(void **h)
{
    (void)h;
    for (int i = 0; i < 4; i++)
        ABT_OK(ABT_thread_free(&many_h[i]));
}
static int d_thread_revive(void **h)
{
    int rc = ABT_thread_revive(target_pool(), nop_fn, NULL, &revive_t);
    *h = rc == ABT_SUCCESS ? (void *)revive_t : POISON;
    return rc;
}
static void u_thread_revive(void **h)
{
    (void)h;
    ABT_OK(ABT_thread_join(revive_t));
}
/* enough creations in a row to exhaust the cached stacks and descriptors, so that the memory
 * pools have to allocate new pages inside ABT_thread_create / ABT_task_create */
#define NBULK 48
static ABT_thread bulk_h[NBULK];
static int bulk(void **h, int task)
{
    int rc = ABT_SUCCESS, n = 0;
    for (; n < NBULK; n++) {
        bulk_h[n] = POISON;
        rc = task ? ABT_task_create(target_pool(), nop_fn, NULL, &bulk_h[n]) : ABT_thread_create(target_pool(), nop_fn, NULL, ABT_THREAD_ATTR_NULL, &bulk_h[n]);
        if (rc != ABT_SUCCESS)
            break;
    }
    if (rc != ABT_SUCCESS) {
        SIM_CHECK(bulk_h[n] == POISON || bulk_h[n] == (task ? ABT_TASK_NULL : ABT_THREAD_NULL), "fault:dangling-handle", "creation #%d of a series failed with %d and left handle %p", n, rc, (void *)bulk_h[n]);
        while (n-- > 0)
            ABT_OK(ABT_thread_free(&bulk_h[n]));
        return rc;
    }
    *h = (void *)bulk_h;
    return ABT_SUCCESS;
}
static int d_thread_create_bulk(void **h)
{
    return bulk(h, 0);
}
static int d_task_create_bulk(void **h)
{
    return bulk(h, 1);
}
static void u_bulk(void **h)
{
    (void)h;
    for (int i = 0; i < NBULK; i++)
        ABT_OK(ABT_thread_free(&bulk_h[i]));
}
static int d_thread_create_upool(void **h)
{
    return ABT_thread_create(UP.pool, nop_fn, NULL, ABT_THREAD_ATTR_NULL, (ABT_thread *)h);
}
static int d_task_create_upool(void **h)
{
    return ABT_task_create(UP.pool, nop_fn, NULL, (ABT_task *)h);
}
static int d_thread_revive_upool(void **h)
{
    int rc = ABT_thread_revive(UP.pool, nop_fn, NULL, &revive_t);
    *h = rc == ABT_SUCCESS ? (void *)revive_t : POISON;
    return rc;
}
static void u_thread_revive_upool(void **h)
{
    (void)h;
    ABT_OK(ABT_thread_join(revive_t));
    /* back to a built-in pool (needs no allocation), so that the next attempt associates it
     * with the user-defined pool again */
    ABT_OK(ABT_thread_revive(target_pool(), nop_fn, NULL, &revive_t));
    ABT_OK(ABT_thread_join(revive_t));
}
/* revive a terminated unit that is associated with one user-defined pool into another one */
static volatile int revive2_runs;
static void revive2_fn(void *arg)
{
    (void)arg;
    revive2_runs++;
}
static void p_revive_up2up(void)
{
    upb_ensure();
    ABT_OK(ABT_thread_revive(UP.pool, nop_fn, NULL, &revive_t));
    ABT_OK(ABT_thread_join(revive_t));
    revive2_runs = 0;
}
static int d_revive_up2up(void **h)
{
    int rc = ABT_thread_revive(UPB.pool, revive2_fn, NULL, &revive_t);
    *h = rc == ABT_SUCCESS ? (void *)revive_t : POISON;
    if (rc != ABT_SUCCESS)
        SIM_CHECK(revive2_runs == 0, "fault:state-changed", "the function of a revive that failed ran %d times", revive2_runs);
    return rc;
}
static void u_revive_up2up(void **h)
{
    (void)h;
    ABT_OK(ABT_thread_join(revive_t));
    SIM_CHECK(revive2_runs == 1, "lifecycle:not-exactly-once", "a unit revived into the second user-defined pool ran its new function %d times", revive2_runs);
    ABT_OK(ABT_thread_revive(target_pool(), nop_fn, NULL, &revive_t));
    ABT_OK(ABT_thread_join(revive_t));
}
/* the main scheduler of a joined stream is replaced by one over a user-defined pool (the
 * scheduler's own ULT becomes a unit of that pool), and the stream is freed without being
 * revived: the unit goes back to the pool */
static ABT_xstream jfree_xs = ABT_XSTREAM_NULL;
static void p_set_main_sched_then_free(void)
{
    if (jfree_xs == ABT_XSTREAM_NULL) {
        ABT_OK(ABT_xstream_create(ABT_SCHED_NULL, &jfree_xs));
        ABT_OK(ABT_xstream_join(jfree_xs));
    }
}
static int d_set_main_sched_then_free(void **h)
{
    int rc = ABT_xstream_set_main_sched_basic(jfree_xs, ABT_SCHED_BASIC, 1, &UP.pool);
    *h = rc == ABT_SUCCESS ? (void *)jfree_xs : POISON;
    return rc;
}
static void u_set_main_sched_then_free(void **h)
{
    (void)h;
    long live = UP.creates - UP.frees;
    ABT_OK(ABT_xstream_free(&jfree_xs));
    jfree_xs = ABT_XSTREAM_NULL;
    SIM_CHECK(UP.creates - UP.frees == live - 1, "upool:unit-leaked",
              "freeing a joined stream whose main scheduler's ULT is a unit of the user-defined pool left %ld live units there (%ld before the free): free_unit was not called for it",
              UP.creates - UP.frees, live);
}
static void jfree_teardown(void)
{
    if (jfree_xs != ABT_XSTREAM_NULL) {
        ABT_OK(ABT_xstream_free(&jfree_xs));
        jfree_xs = ABT_XSTREAM_NULL;
    }
}
static int d_set_assoc_upool(void **h)
{
    int rc = ABT_thread_set_associated_pool(X.blocked, UP.pool);
    *h = rc == ABT_SUCCESS ? (void *)X.blocked : POISON;
    return rc;
}
static void u_set_assoc_upool(void **h)
{
    (void)h;
    ABT_OK(ABT_thread_set_associated_pool(X.blocked, X.pool));
}
static int d_set_main_sched_joined(void **h)
{
    /* replace the main scheduler of a joined stream by one whose first pool is user-defined:
     * the scheduler's own ULT gets a unit of that pool (create_unit + a map entry) */
    ABT_sched sched;
    int rc = ABT_sched_create_basic(ABT_SCHED_BASIC, 1, &UP.pool, ABT_SCHED_CONFIG_NULL, &sched);
    if (rc != ABT_SUCCESS)
        return rc;
    rc = ABT_xstream_set_main_sched(X.jxs, sched);
    if (rc != ABT_SUCCESS) {
        /* the scheduler is still ours and must still be usable: free it */
        ABT_OK(ABT_sched_free(&sched));
        return rc;
    }
    *h = (void *)X.jxs;
    return ABT_SUCCESS;
}
static void u_set_main_sched_joined(void **h)
{
    (void)h;
    /* back to a scheduler over a built-in pool (the other one is released by the runtime) */
    ABT_OK(ABT_xstream_set_main_sched_basic(X.jxs, ABT_SCHED_BASIC, 0, NULL));
}
static int d_set_main_sched_basic_joined(void **h)
{
    int rc = ABT_xstream_set_main_sched_basic(X.jxs, ABT_SCHED_BASIC, 1, &UP.pool);
    *h = rc == ABT_SUCCESS ? (void *)X.jxs : POISON;
    return rc;
}
/* a stacked scheduler handed to a user-defined pool: its ULT gets a unit of that pool (create_unit
 * + a map entry).  When that fails the scheduler is still the caller's: usable and to be freed
 * by the caller, whether it is automatic or not. */
static ABT_pool addsched_own_pool;
static int addsched_automatic;
static int d_pool_add_sched_upool(void **h)
{
    ABT_sched sched;
    ABT_sched_config cfg;
    addsched_automatic = !addsched_automatic;
    int rc = ABT_pool_create_basic(ABT_POOL_FIFO, ABT_POOL_ACCESS_MPMC, ABT_TRUE, &addsched_own_pool);
    if (rc != ABT_SUCCESS)
        return rc;
    rc = ABT_sched_config_create(&cfg, ABT_sched_config_automatic, addsched_automatic ? ABT_TRUE : ABT_FALSE, ABT_sched_config_var_end);
    if (rc != ABT_SUCCESS) {
        ABT_OK(ABT_pool_free(&addsched_own_pool));
        return rc;
    }
    rc = ABT_sched_create_basic(ABT_SCHED_BASIC, 1, &addsched_own_pool, cfg, &sched);
    ABT_OK(ABT_sched_config_free(&cfg));
    if (rc != ABT_SUCCESS) {
        ABT_OK(ABT_pool_free(&addsched_own_pool));
        return rc;
    }
    rc = ABT_pool_add_sched(UP.pool, sched);
    if (rc != ABT_SUCCESS) {
        /* still ours: it can be asked about itself and freed (its automatic pool goes with it) */
        int np = -1;
        ABT_OK(ABT_sched_get_num_pools(sched, &np));
        SIM_CHECK(np == 1, "fault:state-changed", "the scheduler that ABT_pool_add_sched refused reports %d pools", np);
        ABT_OK(ABT_sched_free(&sched));
        return rc;
    }
    *h = (void *)sched;
    return ABT_SUCCESS;
}
static void u_pool_add_sched_upool(void **h)
{
    /* the scheduler runs on the user pool's stream, finds its own pool empty and ends; an
     * automatic one is released by the runtime.  One that is not automatic may be freed by us
     * only when the stream that runs it cannot be touching it any more: after that stream was
     * joined (up18_teardown) */
    ABT_sched sched = (ABT_sched)*h;
    while (UP.creates != UP.frees)
        ABT_OK(ABT_thread_yield());
    if (!addsched_automatic && addsched_npending < 64)
        addsched_pending[addsched_npending++] = sched;
}
static int d_pool_create_user(void **h)
{
    ABT_pool_user_def def;
    int rc = up18_make_def(&def);
    if (rc != ABT_SUCCESS)
        return rc;
    rc = ABT_pool_create(def, ABT_POOL_CONFIG_NULL, (ABT_pool *)h);
    ABT_OK(ABT_pool_user_def_free(&def));
    return rc;
}
static int s18_init(ABT_sched s, ABT_sched_config c)
{
    (void)s;
    (void)c;
    return ABT_SUCCESS;
}
static void s18_run(ABT_sched s)
{
    (void)s;
}
static int s18_free(ABT_sched s)
{
    (void)s;
    return ABT_SUCCESS;
}
static int d_sched_create_user(void **h)
{
    ABT_sched_def def = { .type = ABT_SCHED_TYPE_ULT, .init = s18_init, .run = s18_run, .free = s18_free, .get_migr_pool = NULL };
    /* no pool given: the library creates one */
    return ABT_sched_create(&def, 0, NULL, ABT_SCHED_CONFIG_NULL, (ABT_sched *)h);
}
static int d_sched_create_user_nullpools(void **h)
{
    ABT_sched_def def = { .type = ABT_SCHED_TYPE_ULT, .init = s18_init, .run = s18_run, .free = s18_free, .get_migr_pool = NULL };
    /* null entries in the pool list: the library creates each of them */
    ABT_pool pools[3] = { ABT_POOL_NULL, ABT_POOL_NULL, ABT_POOL_NULL };
    return ABT_sched_create(&def, 3, pools, ABT_SCHED_CONFIG_NULL, (ABT_sched *)h);
}
/* a pool of the caller's next to entries the library has to create: when a later step fails the
 * caller's pool is what it was (what the library prints about it includes its scheduler count) */
static int d_sched_create_user_mixedpools(void **h)
{
    ABT_sched_def def = { .type = ABT_SCHED_TYPE_ULT, .init = s18_init, .run = s18_run, .free = s18_free, .get_migr_pool = NULL };
    ABT_pool pools[3] = { UP.pool, ABT_POOL_NULL, ABT_POOL_NULL };
    return ABT_sched_create(&def, 3, pools, ABT_SCHED_CONFIG_NULL, (ABT_sched *)h);
}
static int d_sched_create_basic_mixedpools(void **h)
{
    ABT_pool pools[3] = { ABT_POOL_NULL, UP.pool, ABT_POOL_NULL };
    return ABT_sched_create_basic(ABT_SCHED_PRIO, 3, pools, ABT_SCHED_CONFIG_NULL, (ABT_sched *)h);
}
static int d_set_main_sched_null_joined(void **h)
{
    /* ABT_SCHED_NULL: the library creates the default scheduler itself */
    int rc = ABT_xstream_set_main_sched(X.jxs, ABT_SCHED_NULL);
    *h = rc == ABT_SUCCESS ? (void *)X.jxs : POISON;
    return rc;
}
static int d_xstream_create_with_rank(void **h)
{
    return ABT_xstream_create_with_rank(ABT_SCHED_NULL, 40, (ABT_xstream *)h);
}
static int d_key_create(void **h)
{
    return ABT_key_create(NULL, (ABT_key *)h);
}
static void u_key(void **h)
{
    ABT_OK(ABT_key_free((ABT_key *)h));
}
static ABT_key many_keys[24];
static int nmany_keys;
static int d_key_set_many(void **h)
{
    /* enough keys to need chained key-table blocks; a failure part-way must leave the values
     * set so far readable */
    int rc = ABT_SUCCESS, i;
    for (i = 0; i < nmany_keys; i++) {
        rc = ABT_key_set(many_keys[i], (void *)(uintptr_t)(0x100 + i));
        if (rc != ABT_SUCCESS)
            break;
    }
    for (int j = 0; j < i; j++) {
        void *v = NULL;
        ABT_OK(ABT_key_get(many_keys[j], &v));
        SIM_CHECK(v == (void *)(uintptr_t)(0x100 + j), "fault:state-changed", "key %d lost its value after a later ABT_key_set failed", j);
    }
    *h = rc == ABT_SUCCESS ? (void *)many_keys : POISON;
    return rc;
}
static void u_key_set_many(void **h)
{
    (void)h;
    for (int i = 0; i < nmany_keys; i++)
        ABT_OK(ABT_key_set(many_keys[i], NULL));
}
static int d_set_specific_many(void **h)
{
    /* keys of another work unit (the blocked ULT), set from wherever the caller runs */
    int rc = ABT_SUCCESS, i;
    for (i = 0; i < nmany_keys; i++) {
        rc = ABT_thread_set_specific(X.blocked, many_keys[i], (void *)(uintptr_t)(0x200 + i));
        if (rc != ABT_SUCCESS)
            break;
    }
    for (int j = 0; j < i; j++) {
        void *v = NULL;
        ABT_OK(ABT_thread_get_specific(X.blocked, many_keys[j], &v));
        SIM_CHECK(v == (void *)(uintptr_t)(0x200 + j), "fault:state-changed", "key %d of the blocked ULT lost its value after a later ABT_thread_set_specific failed", j);
    }
    *h = rc == ABT_SUCCESS ? (void *)many_keys : POISON;
    return rc;
}
static void u_set_specific_many(void **h)
{
    (void)h;
    for (int i = 0; i < nmany_keys; i++)
        ABT_OK(ABT_thread_set_specific(X.blocked, many_keys[i], NULL));
}
static int d_migrate_request(void **h)
{
    /* allocates the migration data of the blocked ULT on first use */
    int rc = ABT_thread_migrate_to_pool(X.blocked, X.pool2);
    *h = rc == ABT_SUCCESS ? (void *)X.blocked : POISON;
    return rc;
}
static void u_none(void **h)
{
    (void)h;
}
static int d_thread_migrate(void **h)
{
    /* the deprecated "migrate to any other stream": collects the streams in a temporary array */
    int rc = ABT_thread_migrate(X.blocked);
    *h = rc == ABT_SUCCESS ? (void *)X.blocked : POISON;
    return rc;
}
static void u_thread_migrate(void **h)
{
    (void)h;
    /* whatever stream was chosen, the request that counts when the ULT is resumed at the very
     * end names a pool that still exists then */
    ABT_OK(ABT_thread_migrate_to_pool(X.blocked, X.pool2));
}
/* user-defined pool -> another user-defined pool: the old unit must stay what it is until the
 * new one is in place */
static void p_assoc_up2up(void)
{
    upb_ensure();
    ABT_OK(ABT_thread_set_associated_pool(X.blocked, UP.pool));
}
static int d_assoc_up2up(void **h)
{
    int rc = ABT_thread_set_associated_pool(X.blocked, UPB.pool);
    *h = rc == ABT_SUCCESS ? (void *)X.blocked : POISON;
    if (rc != ABT_SUCCESS) {
        /* still a unit of the first pool, and the translation still works */
        ABT_unit u = ABT_UNIT_NULL;
        ABT_thread t = ABT_THREAD_NULL;
        ABT_OK(ABT_thread_get_unit(X.blocked, &u));
        SIM_CHECK((char *)u >= (char *)&UP.slot[0] && (char *)u < (char *)&UP.slot[UPSLOTS], "fault:state-changed", "after the failed move the ULT's unit %p is not a unit of the pool it is still associated with", (void *)u);
        ABT_OK(ABT_unit_get_thread(u, &t));
        SIM_CHECK(t == X.blocked, "fault:state-changed", "after the failed move the ULT's unit translates to %p", (void *)t);
    }
    return rc;
}
/* more than 64 handles in one call: the routine needs a temporary array */
#define NPUSH 70
static ABT_thread push_h[NPUSH];
static ABT_pool push_pool = ABT_POOL_NULL;
static int push_inited;
static void p_push_many(void)
{
    if (push_inited)
        return;
    ABT_OK(ABT_pool_create_basic(ABT_POOL_FIFO, ABT_POOL_ACCESS_MPMC, ABT_FALSE, &push_pool));
    for (int i = 0; i < NPUSH; i++)
        ABT_OK(ABT_thread_create(push_pool, nop_fn, NULL, ABT_THREAD_ATTR_NULL, &push_h[i]));
    ABT_thread out[NPUSH];
    size_t got = 0;
    ABT_OK(ABT_pool_pop_threads(push_pool, out, NPUSH, &got));
    SIM_CHECK(got == NPUSH, "api-error", "ABT_pool_pop_threads returned %zu of %d", got, NPUSH);
    push_inited = 1;
}
static int d_push_many(void **h)
{
    int rc = ABT_pool_push_threads(push_pool, push_h, NPUSH);
    size_t sz = 0;
    ABT_OK(ABT_pool_get_size(push_pool, &sz));
    SIM_CHECK(sz == (rc == ABT_SUCCESS ? NPUSH : 0), "fault:state-changed", "ABT_pool_push_threads of %d units returned %d and left %zu units in the pool", NPUSH, rc, sz);
    *h = rc == ABT_SUCCESS ? (void *)push_h : POISON;
    return rc;
}
static void u_push_many(void **h)
{
    (void)h;
    ABT_thread out[NPUSH];
    size_t got = 0;
    ABT_OK(ABT_pool_pop_threads(push_pool, out, NPUSH, &got));
    SIM_CHECK(got == NPUSH, "fault:state-changed", "%zu of %d units came back from the pool", got, NPUSH);
}
/* a unit handle (not a work-unit handle) pushed into a user-defined pool: the unit-based
 * re-association creates the pool's own unit and its map entry inside ABT_pool_push; when that
 * fails the unit is what and where it was, and the same push succeeds afterwards */
static ABT_pool stage_pool = ABT_POOL_NULL;
static ABT_thread pu_t = ABT_THREAD_NULL;
static ABT_unit pu_unit;
static int pu_from_upool; /* the unit waits in the second user-defined pool instead of a built-in one */
static void pu_prep_common(int from_upool)
{
    if (stage_pool == ABT_POOL_NULL)
        ABT_OK(ABT_pool_create_basic(ABT_POOL_FIFO, ABT_POOL_ACCESS_MPMC, ABT_FALSE, &stage_pool));
    if (pu_t != ABT_THREAD_NULL && pu_from_upool != from_upool) {
        /* left over from the other entry: let it run */
        ABT_OK(ABT_thread_set_associated_pool(pu_t, target_pool()));
        ABT_OK(ABT_pool_push_thread(target_pool(), pu_t));
        ABT_OK(ABT_thread_free(&pu_t));
        pu_t = ABT_THREAD_NULL;
    }
    if (pu_t == ABT_THREAD_NULL) {
        pu_from_upool = from_upool;
        ABT_OK(ABT_thread_create(stage_pool, nop_fn, NULL, ABT_THREAD_ATTR_NULL, &pu_t));
        ABT_thread got = ABT_THREAD_NULL;
        ABT_OK(ABT_pool_pop_thread(stage_pool, &got));
        SIM_CHECK(got == pu_t, "infra:c18-stage-pool", "the staging pool returned another unit");
        if (from_upool) {
            upb_ensure();
            ABT_OK(ABT_thread_set_associated_pool(pu_t, UPB.pool));
        }
        ABT_OK(ABT_thread_get_unit(pu_t, &pu_unit));
    }
}
static void p_push_unit_builtin(void)
{
    pu_prep_common(0);
}
static void p_push_unit_upool(void)
{
    pu_prep_common(1);
}
static int d_push_unit(void **h)
{
    int rc = ABT_pool_push(UP.pool, pu_unit);
    *h = rc == ABT_SUCCESS ? (void *)pu_t : POISON;
    if (rc != ABT_SUCCESS) {
        ABT_unit u = ABT_UNIT_NULL;
        ABT_pool lp = ABT_POOL_NULL;
        ABT_OK(ABT_thread_get_unit(pu_t, &u));
        ABT_OK(ABT_thread_get_last_pool(pu_t, &lp));
        SIM_CHECK(u == pu_unit, "fault:state-changed", "after the refused ABT_pool_push the work unit's unit handle changed (%p, was %p)", (void *)u, (void *)pu_unit);
        SIM_CHECK(lp == (pu_from_upool ? UPB.pool : stage_pool), "fault:state-changed", "after the refused ABT_pool_push the work unit is associated with another pool");
    }
    return rc;
}
static void u_push_unit(void **h)
{
    (void)h;
    ABT_OK(ABT_thread_free(&pu_t)); /* it runs on the user pool's stream */
    pu_t = ABT_THREAD_NULL;
}
static void pu_teardown(void)
{
    if (pu_t != ABT_THREAD_NULL) {
        ABT_OK(ABT_thread_set_associated_pool(pu_t, target_pool()));
        ABT_OK(ABT_pool_push_thread(target_pool(), pu_t));
        ABT_OK(ABT_thread_free(&pu_t));
        pu_t = ABT_THREAD_NULL;
    }
    if (stage_pool != ABT_POOL_NULL)
        ABT_OK(ABT_pool_free(&stage_pool));
    stage_pool = ABT_POOL_NULL;
}
static void push_teardown(void)
{
    if (!push_inited)
        return;
    ABT_pool p = target_pool();
    for (int i = 0; i < NPUSH; i++) {
        ABT_OK(ABT_thread_set_associated_pool(push_h[i], p));
        ABT_OK(ABT_pool_push_thread(p, push_h[i]));
    }
    for (int i = 0; i < NPUSH; i++)
        ABT_OK(ABT_thread_free(&push_h[i]));
    ABT_OK(ABT_pool_free(&push_pool));
    push_inited = 0;
    jfree_xs = ABT_XSTREAM_NULL;
}
/* printing routines that collect pools in a temporary set */
static int d_info_print_all(void **h)
{
    char *buf = NULL;
    size_t len = 0;
    FILE *f = open_memstream(&buf, &len);
    if (!f)
        return ABT_SUCCESS;
    int rc = ABT_info_print_all_xstreams(f);
    if (rc == ABT_SUCCESS)
        rc = ABT_info_print_thread_stacks_in_pool(f, target_pool());
    fclose(f);
    free(buf);
    *h = rc == ABT_SUCCESS ? (void *)1 : POISON;
    return rc;
}
#define SIMPLE(name, type, create_expr, free_fn)                               \
    static int d_##name(void **h)                                              \
    {                                                                          \
        return create_expr;                                                    \
    }                                                                          \
    static void u_##name(void **h)                                             \
    {                                                                          \
        ABT_OK(free_fn((type *)h));                                            \
    }
SIMPLE(mutex, ABT_mutex, ABT_mutex_create((ABT_mutex *)h), ABT_mutex_free)
SIMPLE(mutex_attr, ABT_mutex_attr, ABT_mutex_attr_create((ABT_mutex_attr *)h), ABT_mutex_attr_free)
SIMPLE(cond, ABT_cond, ABT_cond_create((ABT_cond *)h), ABT_cond_free)
SIMPLE(barrier, ABT_barrier, ABT_barrier_create(3, (ABT_barrier *)h), ABT_barrier_free)
SIMPLE(rwlock, ABT_rwlock, ABT_rwlock_create((ABT_rwlock *)h), ABT_rwlock_free)
SIMPLE(eventual, ABT_eventual, ABT_eventual_create(16, (ABT_eventual *)h), ABT_eventual_free)
SIMPLE(future, ABT_future, ABT_future_create(4, NULL, (ABT_future *)h), ABT_future_free)
SIMPLE(timer, ABT_timer, ABT_timer_create((ABT_timer *)h), ABT_timer_free)
SIMPLE(xbarrier, ABT_xstream_barrier, ABT_xstream_barrier_create(2, (ABT_xstream_barrier *)h), ABT_xstream_barrier_free)
SIMPLE(thread_attr, ABT_thread_attr, ABT_thread_attr_create((ABT_thread_attr *)h), ABT_thread_attr_free)
SIMPLE(sched_config, ABT_sched_config, ABT_sched_config_create((ABT_sched_config *)h, ABT_sched_basic_freq, 7, ABT_sched_config_automatic, ABT_TRUE, ABT_sched_config_var_end),
       ABT_sched_config_free)
SIMPLE(pool_config, ABT_pool_config, ABT_pool_config_create((ABT_pool_config *)h), ABT_pool_config_free)

static int d_set_main_sched(void **h)
{
    ABT_xstream self;
    ABT_OK(ABT_xstream_self(&self));
    int rc = ABT_xstream_set_main_sched_basic(self, ABT_SCHED_BASIC, 0, NULL);
    *h = rc == ABT_SUCCESS ? (void *)self : POISON;
    return rc;
}

static const op18 OPS[] = {
    { "ABT_xstream_create", d_xstream_create, u_xstream, ABT_XSTREAM_NULL, 0 },
    { "ABT_xstream_create_basic", d_xstream_create_basic, u_xstream, ABT_XSTREAM_NULL, 0 },
    { "ABT_sched_create_basic", d_sched_create_basic, u_sched, ABT_SCHED_NULL, 0 },
    { "ABT_pool_create_basic(FIFO)", d_pool_fifo, u_pool, ABT_POOL_NULL, 0 },
    { "ABT_pool_create_basic(FIFO_WAIT)", d_pool_fifo_wait, u_pool, ABT_POOL_NULL, 0 },
    { "ABT_pool_create_basic(RANDWS)", d_pool_randws, u_pool, ABT_POOL_NULL, 0 },
    { "ABT_thread_create", d_thread_create, u_thread, ABT_THREAD_NULL, 0 },
    { "ABT_thread_create(stacksize)", d_thread_create_bigstack, u_thread, ABT_THREAD_NULL, 0 },
    { "ABT_thread_create(user_stack)", d_thread_create_userstack, u_thread, ABT_THREAD_NULL, 0 },
    { "ABT_thread_create(attr with callback)", d_thread_create_attr_cb, u_thread, ABT_THREAD_NULL, 0 },
    { "ABT_task_create", d_task_create, u_thread, ABT_TASK_NULL, 0 },
    { "ABT_thread_create_many", d_thread_create_many, u_thread_many, POISON, 0 },
    { "ABT_thread_create_many(x48)", d_thread_create_many48, u_thread_many48, POISON, 0 },
    { "ABT_thread_revive", d_thread_revive, u_thread_revive, POISON, 0 },
    { "ABT_thread_create(x48)", d_thread_create_bulk, u_bulk, POISON, 0, 0 },
    { "ABT_task_create(x48)", d_task_create_bulk, u_bulk, POISON, 0, 0 },
    { "ABT_thread_create(user_pool)", d_thread_create_upool, u_thread, ABT_THREAD_NULL, 0, 2 },
    { "ABT_task_create(user_pool)", d_task_create_upool, u_thread, ABT_TASK_NULL, 0, 2 },
    { "ABT_thread_revive(user_pool)", d_thread_revive_upool, u_thread_revive_upool, POISON, 0, 2 },
    /* the same from an external thread: descriptors come from malloc, stacks from the global pool */
    { "ABT_thread_create(ext)", d_thread_create, u_thread, ABT_THREAD_NULL, 0, 0, 1 },
    { "ABT_task_create(ext)", d_task_create, u_thread, ABT_TASK_NULL, 0, 0, 1 },
    { "ABT_thread_create(user_pool,ext)", d_thread_create_upool, u_thread, ABT_THREAD_NULL, 0, 2, 1 },
    { "ABT_task_create(user_pool,ext)", d_task_create_upool, u_thread, ABT_TASK_NULL, 0, 2, 1 },
    { "ABT_thread_set_associated_pool(user_pool)", d_set_assoc_upool, u_set_assoc_upool, POISON, 2, 2 },
    { "ABT_xstream_set_main_sched(joined,user_pool)", d_set_main_sched_joined, u_set_main_sched_joined, POISON, 2, 2 },
    { "ABT_xstream_set_main_sched_basic(joined,user_pool)", d_set_main_sched_basic_joined, u_set_main_sched_joined, POISON, 2, 2 },
    { "ABT_pool_add_sched(user_pool)", d_pool_add_sched_upool, u_pool_add_sched_upool, POISON, 0, 2 },
    { "ABT_pool_create(user_def)", d_pool_create_user, u_pool, ABT_POOL_NULL, 0, 0 },
    { "ABT_sched_create(user_def)", d_sched_create_user, u_sched, ABT_SCHED_NULL, 0, 0 },
    { "ABT_sched_create(user_def, null pools)", d_sched_create_user_nullpools, u_sched, ABT_SCHED_NULL, 0, 0 },
    { "ABT_sched_create(user_def, user_pool + null pools)", d_sched_create_user_mixedpools, u_sched, ABT_SCHED_NULL, 0, 1 },
    { "ABT_sched_create_basic(null + user_pool + null)", d_sched_create_basic_mixedpools, u_sched, ABT_SCHED_NULL, 0, 1 },
    { "ABT_xstream_set_main_sched(joined, ABT_SCHED_NULL)", d_set_main_sched_null_joined, u_set_main_sched_joined, POISON, 2, 0 },
    { "ABT_xstream_create_with_rank", d_xstream_create_with_rank, u_xstream, ABT_XSTREAM_NULL, 0, 0 },
    { "ABT_key_create", d_key_create, u_key, ABT_KEY_NULL, 0 },
    { "ABT_key_set(x24)", d_key_set_many, u_key_set_many, POISON, 0 },
    { "ABT_thread_set_specific(x24)", d_set_specific_many, u_set_specific_many, POISON, 2, 0, 0 },
    { "ABT_thread_set_specific(x24,ext)", d_set_specific_many, u_set_specific_many, POISON, 2, 0, 1 },
    { "ABT_thread_migrate_to_pool", d_migrate_request, u_none, POISON, 2 },
    { "ABT_thread_migrate", d_thread_migrate, u_thread_migrate, POISON, 2 },
    { "ABT_thread_set_associated_pool(user_pool->user_pool2)", d_assoc_up2up, u_set_assoc_upool, POISON, 2, 2, 0, p_assoc_up2up },
    { "ABT_thread_revive(user_pool->user_pool2)", d_revive_up2up, u_revive_up2up, POISON, 0, 2, 0, p_revive_up2up },
    { "ABT_xstream_set_main_sched_basic(joined,user_pool)+free", d_set_main_sched_then_free, u_set_main_sched_then_free, POISON, 0, 2, 0, p_set_main_sched_then_free },
    { "ABT_pool_push(user_pool, unit)", d_push_unit, u_push_unit, POISON, 0, 2, 0, p_push_unit_builtin },
    { "ABT_pool_push(user_pool, unit of user_pool2)", d_push_unit, u_push_unit, POISON, 0, 2, 0, p_push_unit_upool },
    { "ABT_pool_push_threads(x70)", d_push_many, u_push_many, POISON, 0, 0, 0, p_push_many },
    { "ABT_info_print_all_xstreams+thread_stacks_in_pool", d_info_print_all, u_none, POISON, 0 },
    { "ABT_mutex_create", d_mutex, u_mutex, ABT_MUTEX_NULL, 0 },
    { "ABT_mutex_attr_create", d_mutex_attr, u_mutex_attr, ABT_MUTEX_ATTR_NULL, 0 },
    { "ABT_cond_create", d_cond, u_cond, ABT_COND_NULL, 0 },
    { "ABT_barrier_create", d_barrier, u_barrier, ABT_BARRIER_NULL, 0 },
    { "ABT_rwlock_create", d_rwlock, u_rwlock, ABT_RWLOCK_NULL, 0 },
    { "ABT_eventual_create", d_eventual, u_eventual, ABT_EVENTUAL_NULL, 0 },
    { "ABT_future_create", d_future, u_future, ABT_FUTURE_NULL, 0 },
    { "ABT_timer_create", d_timer, u_timer, ABT_TIMER_NULL, 0 },
    { "ABT_xstream_barrier_create", d_xbarrier, u_xbarrier, ABT_XSTREAM_BARRIER_NULL, 0 },
    { "ABT_thread_attr_create", d_thread_attr, u_thread_attr, ABT_THREAD_ATTR_NULL, 0 },
    { "ABT_sched_config_create", d_sched_config, u_sched_config, ABT_SCHED_CONFIG_NULL, 0 },
    { "ABT_pool_config_create", d_pool_config, u_pool_config, ABT_POOL_CONFIG_NULL, 0 },
    { "ABT_xstream_set_main_sched_basic(self)", d_set_main_sched, u_none, POISON, 1 },
};
#define NOPS ((int)(sizeof OPS / sizeof OPS[0]))

static const char *only_name; /* C17: only the entries whose name contains this */
static void follow_up(const char *op)
{
    /* the pre-existing objects still work */
    ABT_thread t;
    ABT_OK(ABT_thread_create(target_pool(), nop_fn, NULL, ABT_THREAD_ATTR_NULL, &t));
    ABT_OK(ABT_thread_free(&t));
    if (X.populated) {
        ABT_OK(ABT_mutex_lock(X.mtx));
        ABT_OK(ABT_mutex_unlock(X.mtx));
    }
    if (plan_n(4) == 0) {
        /* the list of execution streams (and its lock) is still usable */
        ABT_xstream xs;
        ABT_OK(ABT_xstream_create(ABT_SCHED_NULL, &xs));
        ABT_OK(ABT_xstream_free(&xs));
    }
    if (X.populated && (only_name || plan_n(4) == 0)) {
        /* the joined stream (whose main scheduler a failed call may have tried to replace) still
         * has a scheduler that runs: revive it, let it run a unit, join it again */
        ABT_pool jp;
        ABT_thread jt;
        ABT_OK(ABT_xstream_revive(X.jxs));
        ABT_OK(ABT_xstream_get_main_pools(X.jxs, 1, &jp));
        ABT_OK(ABT_thread_create(jp, nop_fn, NULL, ABT_THREAD_ATTR_NULL, &jt));
        ABT_OK(ABT_thread_free(&jt));
        ABT_OK(ABT_xstream_join(X.jxs));
        sim_count("c18.joined_stream_revived_after_an_attempt", 1);
    }
    (void)op;
    sim_progress();
}

/* one attempt with a fault armed: allocation #k fails (k > 0), or the user pool's create_unit
 * fails (k == 0).  Returns 0 when the armed fault did not fire. */
static int attempt(const op18 *o, int k)
{
    snapshot before, after;
    if (o->prep)
        o->prep();
    take(&before);
    void *h = POISON;
    if (k > 0)
        sim_alloc_arm(k, g_res_kinds);
    else {
        UP.fail_next_create = 1;
        UP.fail_fired = 0;
    }
    int rc = o->doit(&h);
    int fired = k > 0 ? sim_alloc_fired() : UP.fail_fired;
    sim_alloc_arm(0, 0);
    UP.fail_next_create = 0;
    if (!fired) {
        /* k exceeds the number of allocation-class calls of this call: it ran fault-free */
        SIM_CHECK(rc == ABT_SUCCESS, "fault:spurious-error", "%s failed with %d although no allocation failed (k=%d)", o->name, rc, k);
        o->undo(&h);
        return 0;
    }
    n_faults_total++;
    if (rc == ABT_SUCCESS) {
        /* fully succeeded through a fall-back (e.g. another large-page type, non-strict
         * stack guard): the object must be complete */
        SIM_CHECK(k > 0, "fault:error-swallowed", "%s returned ABT_SUCCESS although create_unit of the target pool failed", o->name);
        n_success_despite_fault++;
        o->undo(&h);
    } else {
        n_failures++;
        SIM_CHECK(h == POISON || h == o->nullh, "fault:dangling-handle", "%s with %s #%d failing returned %d and left handle %p (neither untouched nor the NULL handle)", o->name,
                  k > 0 ? "allocation" : "create_unit", k, rc, h);
        take(&after);
        same(&before, &after, o->name, k);
        /* the same call succeeds when retried without the failure */
        h = POISON;
        rc = o->doit(&h);
        SIM_CHECK(rc == ABT_SUCCESS, "fault:retry-failed", "%s failed with %d when retried after %s #%d had failed", o->name, rc, k > 0 ? "allocation" : "create_unit", k);
        o->undo(&h);
    }
    follow_up(o->name);
    return 1;
}

static void enumerate(const op18 *o)
{
    char nm[80];
    if (o->upool)
        up18_ensure();
    for (int k = 1; k < 200; k++) {
        if (!attempt(o, k)) {
            n_ops_enumerated++;
            snprintf(nm, sizeof nm, "c18.sites.%s", o->name);
            sim_count(nm, (uint64_t)(k - 1));
            break;
        }
    }
    if (o->upool == 2 && attempt(o, 0))
        sim_count("c18.create_unit_failures", 1);
}

static const op18 *ext_op;
static volatile int ext_op_done;
static void ext_enumerate(void *arg)
{
    (void)arg;
    enumerate(ext_op);
    ext_op_done = 1;
    sim_progress();
}

static int only_upool; /* C14: only the entries that associate units with user-defined pools */
static void run_c18(void)
{
    memset(&X, 0, sizeof X);
    memset(UPS, 0, sizeof UPS);
    up_cur = &UPS[0];
    push_inited = 0;
    revive_t = ABT_THREAD_NULL;
    n_failures = n_success_despite_fault = n_ops_enumerated = n_faults_total = 0;
    sim_allow_faults((1u << SIM_F_STALL) | (1u << SIM_F_SLOW_NODE));
    wl_env_swarm();
    /* ---- ABT_init itself ---- */
    int kinds = (int)plan_n(4);
    g_res_kinds = kinds == 0 ? SIM_RES_MALLOC : kinds == 1 ? (SIM_RES_MALLOC | SIM_RES_MMAP | SIM_RES_MPROTECT) : kinds == 2 ? (SIM_RES_PTHREAD_CREATE | SIM_RES_PTHREAD_INIT) : SIM_RES_ALL;
    {
        /* "mprotect-strict: assert if mprotect() fails" is documented behaviour */
        const char *g = getenv("ABT_STACK_OVERFLOW_CHECK");
        if (g && !strcmp(g, "mprotect_strict"))
            g_res_kinds &= ~SIM_RES_MPROTECT;
    }
    if (plan_n(3) == 0) {
        if (plan_bool())
            setenv("ABT_SET_AFFINITY", "{0:2}:4,{1,3},9", 1);
        for (int k = 1; k < 400; k++) {
            sim_alloc_arm(k, g_res_kinds);
            int rc = ABT_init(0, NULL);
            int fired = sim_alloc_fired();
            sim_alloc_arm(0, 0);
            if (rc == ABT_SUCCESS) {
                ABT_OK(ABT_finalize());
                sim_ctx_reset();
                sim_ledger_check_empty("after ABT_init (with a fall-back) and ABT_finalize");
                if (!fired) {
                    sim_count("c18.sites.ABT_init", (uint64_t)(k - 1));
                    break;
                }
                n_success_despite_fault++;
            } else {
                n_failures++;
                sim_ctx_reset();
                sim_ledger_check_empty("after a failed ABT_init");
                ABT_bool inited = ABT_TRUE;
                SIM_CHECK(ABT_initialized() == ABT_ERR_UNINITIALIZED, "fault:state-changed", "runtime reports initialized after a failed ABT_init");
                (void)inited;
            }
            n_faults_total++;
            sim_progress();
        }
        unsetenv("ABT_SET_AFFINITY");
    }
    /* ---- every other routine, in a fresh / populated / busy runtime ---- */
    ABT_OK(ABT_init(0, NULL));
    X.populated = plan_n(3) != 0 || only_upool;
    X.concurrent = X.populated && plan_bool();
    sim_note("C18 kinds=%#x populated=%d concurrent=%d ", g_res_kinds, X.populated, X.concurrent);
    nmany_keys = 24;
    for (int i = 0; i < nmany_keys; i++)
        ABT_OK(ABT_key_create(NULL, &many_keys[i]));
    if (X.populated) {
        ABT_OK(ABT_xstream_create(ABT_SCHED_NULL, &X.xs));
        ABT_OK(ABT_xstream_get_main_pools(X.xs, 1, &X.pool));
        ABT_xstream self;
        ABT_OK(ABT_xstream_self(&self));
        ABT_OK(ABT_xstream_get_main_pools(self, 1, &X.pool2));
        ABT_OK(ABT_key_create(NULL, &X.key));
        ABT_OK(ABT_mutex_create(&X.mtx));
        ABT_OK(ABT_thread_create(X.pool, blocked_fn, NULL, ABT_THREAD_ATTR_NULL, &X.blocked));
        for (;;) {
            ABT_thread_state st;
            ABT_OK(ABT_thread_get_state(X.blocked, &st));
            if (st == ABT_THREAD_STATE_BLOCKED)
                break;
            ABT_OK(ABT_thread_yield());
        }
        if (X.concurrent)
            ABT_OK(ABT_thread_create(X.pool, bg_fn, NULL, ABT_THREAD_ATTR_NULL, &X.bg));
        ABT_OK(ABT_xstream_create(ABT_SCHED_NULL, &X.jxs));
        ABT_OK(ABT_xstream_join(X.jxs));
    }
    ABT_OK(ABT_thread_create(target_pool(), nop_fn, NULL, ABT_THREAD_ATTR_NULL, &revive_t));
    ABT_OK(ABT_thread_join(revive_t));
    /* a seeded subset of the table per run, every entry over all runs */
    int first = (int)plan_n(NOPS), cnt = plan_range(3, sim_limit("ops", 8));
    int sel[NOPS], nsel = 0;
    for (int i = 0; i < NOPS; i++)
        if ((!only_upool || OPS[i].upool) && (!only_name || strstr(OPS[i].name, only_name)))
            sel[nsel++] = i;
    for (int i = 0; i < cnt; i++) {
        const op18 *o = &OPS[sel[(first + i * 5) % nsel]];
        if (o->primary_ult_only == 2 && !X.populated)
            continue;
        if (o->primary_ult_only == 1 && X.populated)
            continue; /* replacing the caller's scheduler is exercised in the fresh runtime */
        sim_note("%s; ", o->name);
        if (o->on_ext) {
            if (o->upool)
                up18_ensure();
            {
                ABT_xstream self;
                ABT_OK(ABT_xstream_self(&self));
                ABT_OK(ABT_xstream_get_main_pools(self, 1, &primary_pool));
            }
            ext_op = o;
            ext_op_done = 0;
            enumerating_on_ext = 1;
            int tid = sim_thread_create(ext_enumerate, NULL);
            while (!ext_op_done)
                ABT_OK(ABT_thread_yield());
            sim_thread_join(tid);
            enumerating_on_ext = 0;
        } else
            enumerate(o);
    }
    follow_up("all");
    ABT_OK(ABT_thread_free(&revive_t));
    pu_teardown();
    push_teardown();
    jfree_teardown();
    if (X.populated) /* (a unit may still be associated with a user-defined pool) */
        ABT_OK(ABT_thread_set_associated_pool(X.blocked, X.pool));
    up18_teardown();
    if (X.populated) {
        if (X.concurrent) {
            X.bg_stop = 1;
            ABT_OK(ABT_thread_free(&X.bg));
        }
        ABT_OK(ABT_thread_resume(X.blocked));
        ABT_OK(ABT_thread_free(&X.blocked));
        ABT_OK(ABT_mutex_free(&X.mtx));
        ABT_OK(ABT_key_free(&X.key));
        ABT_OK(ABT_xstream_join(X.xs));
        ABT_OK(ABT_xstream_free(&X.xs));
        ABT_OK(ABT_xstream_free(&X.jxs));
    }
    for (int i = 0; i < nmany_keys; i++)
        ABT_OK(ABT_key_free(&many_keys[i]));
    ABT_OK(ABT_finalize());
    sim_ledger_check_empty("after ABT_finalize");
    sim_count("c18.failures_injected", (uint64_t)n_faults_total);
    sim_count("c18.calls_failed_cleanly", (uint64_t)n_failures);
    sim_count("c18.calls_succeeded_through_fallback", (uint64_t)n_success_despite_fault);
    sim_count("c18.routines_fully_enumerated", (uint64_t)n_ops_enumerated);
}
SIM_WORKLOAD("C18", "alloc-faults", run_c18, 10)
/* C14: create_unit / free_unit pairing and the unit map when an association with a user-defined
 * pool fails half-way (the map entry cannot be allocated, or create_unit returns ABT_UNIT_NULL) */
static void run_c14_faults(void)
{
    only_upool = 1;
    run_c18();
    only_upool = 0;
}
SIM_WORKLOAD("C14", "failed-associations", run_c14_faults, 2)
/* C12: a revive that fails (the unit cannot be associated with the target pool) leaves the unit
 * terminated and revivable; the retried revive runs the new function exactly once */
static void run_c12_faults(void)
{
    only_upool = 1;
    run_c18();
    only_upool = 0;
}
SIM_WORKLOAD("C12", "failed-revives", run_c12_faults, 1)
/* C17: a main-scheduler replacement that fails leaves the stream with its old scheduler, able to
 * be revived, joined and freed */
static void run_c17_faults(void)
{
    only_name = "set_main_sched";
    run_c18();
    only_name = NULL;
}
SIM_WORKLOAD("C17", "failed-sched-replacements", run_c17_faults, 1)

/* ---- scenario "migration-handler": the allocation-class failure happens while a migration
 * request is being *served*, i.e. inside ABT_thread_yield() of the migrating unit (the target
 * is a user-defined pool whose create_unit declines), while another stream keeps requesting
 * migrations of that unit -- the same one again, or back to its home pool.  A failed move
 * leaves the unit where it was, with every unit of the user pool accounted for, and leaves the
 * request machinery intact: whenever the unit sees a request pending, that request names a
 * pool (a request that was accepted is never left behind without its target), requests keep
 * being accepted, and moves keep happening. ---- */
static struct {
    ABT_xstream xa;
    ABT_pool pa;
    ABT_thread t;
    volatile int t_done;
    long fired, moved, pending_seen, requests_ok;
} MH;
static void mh_unit(void *arg)
{
    (void)arg;
    ABT_thread self;
    ABT_OK(ABT_self_get_thread(&self));
    int n = 6 + (int)sim_rand_n(SIM_RS_CHAOS, 10);
    for (int i = 0; i < n; i++) {
        int decline = sim_rand_n(SIM_RS_CHAOS, 2) == 0;
        ABT_pool before, after;
        ABT_OK(ABT_self_get_last_pool(&before));
        long frees0 = UP.frees, creates0 = UP.creates;
        if (decline) {
            UP.fail_next_create = 1;
            UP.fail_fired = 0;
        }
        ABT_OK(ABT_thread_yield());
        int fired = decline && UP.fail_fired;
        UP.fail_next_create = 0;
        ABT_OK(ABT_self_get_last_pool(&after));
        if (fired)
            MH.fired++;
        if (after != before)
            MH.moved++; /* (also after a declined attempt: a later request may have been served at the pop) */
        /* the unit owns exactly one unit of the user-defined pool while it is associated with it */
        SIM_CHECK(UP.creates - UP.frees == (after == UP.pool ? 1 : 0), "fault:state-changed",
                  "the unit is %sassociated with the user-defined pool, which holds %ld live units (create_unit declined during this yield: %d)", after == UP.pool ? "" : "not ",
                  UP.creates - UP.frees, fired);
        (void)frees0;
        (void)creates0;
        if (wb_thread_request(self) & (1u << 2) /* ABTI_THREAD_REQ_MIGRATE */) {
            MH.pending_seen++;
            SIM_CHECK(wb_thread_migration_target(self) != NULL, "fault:request-without-target",
                      "a migration request is pending for the unit, but it names no pool: an accepted request lost its target (after a failed association: %d)", fired);
        }
        sim_progress();
    }
    MH.t_done = 1;
}
static void run_c18_mig_handler(void)
{
    memset(&X, 0, sizeof X);
    memset(UPS, 0, sizeof UPS);
    up_cur = &UPS[0];
    memset(&MH, 0, sizeof MH);
    revive_t = ABT_THREAD_NULL;
    sim_allow_faults((1u << SIM_F_STALL) | (1u << SIM_F_SLOW_NODE) | (1u << SIM_F_TARGET_DELAY));
    wl_env_swarm();
    ABT_OK(ABT_init(0, NULL));
    up18_ensure();
    ABT_OK(ABT_xstream_create(ABT_SCHED_NULL, &MH.xa));
    ABT_OK(ABT_xstream_get_main_pools(MH.xa, 1, &MH.pa));
    sim_note("C18 migration-handler ");
    ABT_OK(ABT_thread_create(MH.pa, mh_unit, NULL, ABT_THREAD_ATTR_NULL, &MH.t));
    int ext = plan_bool();
    (void)ext;
    while (!MH.t_done) {
        int rc = ABT_thread_migrate_to_pool(MH.t, plan_n(3) ? UP.pool : MH.pa);
        SIM_CHECK(rc == ABT_SUCCESS || rc == ABT_ERR_MIGRATION_TARGET, "api-error", "ABT_thread_migrate_to_pool returned %d", rc);
        if (rc == ABT_SUCCESS)
            MH.requests_ok++;
        for (int k = (int)plan_n(3); k >= 0; k--)
            ABT_OK(ABT_thread_yield());
    }
    ABT_OK(ABT_thread_free(&MH.t));
    up18_teardown();
    ABT_OK(ABT_xstream_join(MH.xa));
    ABT_OK(ABT_xstream_free(&MH.xa));
    ABT_OK(ABT_finalize());
    sim_ledger_check_empty("after ABT_finalize");
    sim_count("c18.migration_handler_declined", (uint64_t)MH.fired);
    sim_count("c18.migration_handler_moves", (uint64_t)MH.moved);
    sim_count("c18.migration_handler_pending_seen", (uint64_t)MH.pending_seen);
}
SIM_WORKLOAD("C18", "migration-handler", run_c18_mig_handler, 2)

/* ---- scenario "keytable-race": two callers set the first values of a work unit at the same
 * time (the unit itself with ABT_key_set, an external thread with ABT_thread_set_specific), so
 * one of them creates the unit's key table while the other waits for it; the external thread's
 * first allocation fails.  The failing call returns an error; the other call, which met no
 * failure, succeeds and its value is there; the failing call succeeds when retried. ---- */
static struct {
    ABT_key k1, k2;
    ABT_thread t;
    volatile int go, t_set_done, e_done, t_may_end;
    int t_rc, e_rc, e_fired;
} KR;
static void kr_unit(void *arg)
{
    (void)arg;
    while (!KR.go)
        ABT_OK(ABT_thread_yield());
    for (int i = (int)sim_rand_n(SIM_RS_CHAOS, 4); i > 0; i--)
        sim_yield();
    KR.t_rc = ABT_key_set(KR.k1, (void *)0x1111);
    KR.t_set_done = 1;
    sim_progress();
    while (!KR.t_may_end)
        ABT_OK(ABT_thread_yield());
}
static void kr_ext(void *arg)
{
    (void)arg;
    while (!KR.go)
        sim_yield();
    for (int i = (int)sim_rand_n(SIM_RS_CHAOS, 4); i > 0; i--)
        sim_yield();
    sim_alloc_arm(1, SIM_RES_MALLOC);
    KR.e_rc = ABT_thread_set_specific(KR.t, KR.k2, (void *)0x2222);
    KR.e_fired = sim_alloc_fired();
    sim_alloc_arm(0, 0);
    KR.e_done = 1;
    sim_progress();
}
static void run_c18_keytable_race(void)
{
    memset(&KR, 0, sizeof KR);
    sim_allow_faults((1u << SIM_F_STALL) | (1u << SIM_F_SLOW_NODE) | (1u << SIM_F_TARGET_DELAY));
    wl_env_swarm();
    ABT_OK(ABT_init(0, NULL));
    ABT_xstream xs;
    ABT_pool p;
    ABT_OK(ABT_xstream_create(ABT_SCHED_NULL, &xs));
    ABT_OK(ABT_xstream_get_main_pools(xs, 1, &p));
    ABT_OK(ABT_key_create(NULL, &KR.k1));
    ABT_OK(ABT_key_create(NULL, &KR.k2));
    int rounds = plan_range(1, 3);
    sim_note("C18 keytable-race rounds=%d ", rounds);
    for (int r = 0; r < rounds; r++) {
        KR.go = KR.t_set_done = KR.e_done = KR.t_may_end = 0;
        ABT_OK(ABT_thread_create(p, kr_unit, NULL, ABT_THREAD_ATTR_NULL, &KR.t));
        int tid = sim_thread_create(kr_ext, NULL);
        KR.go = 1;
        while (!KR.t_set_done || !KR.e_done)
            ABT_OK(ABT_thread_yield());
        sim_thread_join(tid);
        SIM_CHECK(KR.t_rc == ABT_SUCCESS, "fault:spurious-error", "ABT_key_set of the unit itself returned %d although only the other caller's allocation failed", KR.t_rc);
        void *v = NULL;
        ABT_OK(ABT_thread_get_specific(KR.t, KR.k1, &v));
        SIM_CHECK(v == (void *)0x1111, "fault:state-changed", "the value the unit set itself reads back %p", v);
        if (KR.e_fired) {
            SIM_CHECK(KR.e_rc != ABT_SUCCESS, "fault:error-swallowed", "ABT_thread_set_specific returned ABT_SUCCESS although its allocation failed");
            v = (void *)1;
            ABT_OK(ABT_thread_get_specific(KR.t, KR.k2, &v));
            SIM_CHECK(v == NULL, "fault:state-changed", "the failed ABT_thread_set_specific left the value %p behind", v);
            ABT_OK(ABT_thread_set_specific(KR.t, KR.k2, (void *)0x2222)); /* the retry */
            sim_count("c18.keytable_race_failures", 1);
        } else
            SIM_CHECK(KR.e_rc == ABT_SUCCESS, "fault:spurious-error", "ABT_thread_set_specific returned %d although no allocation failed", KR.e_rc);
        ABT_OK(ABT_thread_get_specific(KR.t, KR.k2, &v));
        SIM_CHECK(v == (void *)0x2222, "fault:state-changed", "the other caller's value reads back %p", v);
        KR.t_may_end = 1;
        ABT_OK(ABT_thread_free(&KR.t));
        sim_progress();
    }
    ABT_OK(ABT_key_free(&KR.k1));
    ABT_OK(ABT_key_free(&KR.k2));
    ABT_OK(ABT_xstream_join(xs));
    ABT_OK(ABT_xstream_free(&xs));
    ABT_OK(ABT_finalize());
    sim_ledger_check_empty("after ABT_finalize");
}
SIM_WORKLOAD("C18", "keytable-race", run_c18_keytable_race, 2)
