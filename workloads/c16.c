/* C16: work-unit-local storage: per-unit key->value map, exactly-once destructors */
#include "wl_common.h"

#define MAXK 40
#define MAXU 6
#define MAXV 2048

typedef struct val {
    int unit, key, seq;
    int dtor_calls;
    int orphan; /* still stored in its unit when the key was deleted: unreachable from then on, destroyed when the unit is freed */
} val;

typedef struct ku {
    int id, is_task, pool, nops, revive;
    ABT_thread th;
    volatile int started, done;
    /* reference map: last value per key, by writer class: 0 = the unit itself, 1 = remote */
    val *last[MAXK];
    int writer[MAXK]; /* -1 nobody yet, 0 self, 1.. remote setter id */
    val *seen_remote[MAXK];
    int ops[24], okey[24];
} ku;

static struct {
    wl_rt rt;
    ABT_key keys[MAXK];
    int nk;
    ku U[MAXU + 1]; /* [n] = the primary ULT */
    int n;
    val V[MAXV];
    int nv;
    volatile int go, remote_done;
    long gets, sets, remote_sets, dtors, revives, churned;
} S;

static void dtor(void *p)
{
    val *v = (val *)p;
    SIM_CHECK(v >= S.V && v < S.V + MAXV, "key:destructor-arg", "destructor received a pointer that was never stored");
    v->dtor_calls++;
    S.dtors++;
    SIM_CHECK(v->dtor_calls == 1, "key:destructor-twice", "destructor called %d times for the value #%d of unit %d key %d", v->dtor_calls, v->seq, v->unit, v->key);
}

static val *newval(int unit, int key)
{
    if (S.nv >= MAXV)
        return NULL;
    val *v = &S.V[S.nv++];
    v->unit = unit;
    v->key = key;
    v->seq = S.nv;
    v->dtor_calls = 0;
    v->orphan = 0;
    return v;
}

/* keys are partitioned: key k is written by the owner if k % 3 != 0, otherwise by the remote
 * setter (so every (unit,key) has a single writer and the expected value is unique) */
static int remote_key(int k)
{
    return k % 3 == 0;
}

static void self_ops(ku *u)
{
    for (int i = 0; i < u->nops; i++) {
        int k = u->okey[i];
        int op = u->ops[i];
        void *got = (void *)1;
        if (op == 0 || op == 1) {
            /* get through either API */
            if (op == 0)
                ABT_OK(ABT_key_get(S.keys[k], &got));
            else
                ABT_OK(ABT_self_get_specific(S.keys[k], &got));
            S.gets++;
            if (!remote_key(k))
                SIM_CHECK(got == (void *)u->last[k], "key:wrong-value", "unit %d key %d: get returned %p, last value set is %p", u->id, k, got, (void *)u->last[k]);
            else {
                /* written concurrently by the remote setter: NULL or one of its values, never older than seen before */
                val *g = (val *)got;
                if (g) {
                    SIM_CHECK(g >= S.V && g < S.V + MAXV && g->unit == u->id && g->key == k, "key:value-leaked",
                              "unit %d key %d: get returned a value stored for unit %d key %d", u->id, k, g >= S.V && g < S.V + MAXV ? g->unit : -1,
                              g >= S.V && g < S.V + MAXV ? g->key : -1);
                    SIM_CHECK(!u->seen_remote[k] || g->seq >= u->seen_remote[k]->seq, "key:value-went-back", "unit %d key %d: value went back in time", u->id, k);
                    u->seen_remote[k] = g;
                } else
                    SIM_CHECK(!u->seen_remote[k], "key:value-went-back", "unit %d key %d: value disappeared", u->id, k);
            }
        } else if (!remote_key(k)) {
            val *v = op == 4 ? NULL : newval(u->id, k);
            if (op == 2)
                ABT_OK(ABT_key_set(S.keys[k], v));
            else
                ABT_OK(ABT_self_set_specific(S.keys[k], v));
            u->last[k] = v;
            S.sets++;
        }
        if (!u->is_task && (i & 3) == 3)
            ABT_OK(ABT_thread_yield());
        else
            sim_yield();
    }
}

static void unit_fn(void *arg)
{
    ku *u = (ku *)arg;
    u->started = 1;
    self_ops(u);
    /* stay alive until the remote setter is done with this unit (it holds our handle) */
    while (!S.remote_done) {
        if (u->is_task)
            break; /* a tasklet cannot wait politely; the remote setter skips tasklets */
        ABT_OK(ABT_thread_yield());
    }
    u->done = 1;
    sim_progress();
}

/* second incarnation of a revived unit: it is the same work unit, so it still has its values */
static void revived_fn(void *arg)
{
    ku *u = (ku *)arg;
    for (int k = 0; k < S.nk; k++) {
        void *got = (void *)1;
        ABT_OK(ABT_key_get(S.keys[k], &got));
        SIM_CHECK(got == (void *)u->last[k], "key:wrong-value", "unit %d key %d after revive: get returned %p, last value set is %p", u->id, k, got, (void *)u->last[k]);
    }
    self_ops(u);
    u->done = 2;
    sim_progress();
}

static struct kcreator {
    int first, step;
    volatile int done;
} KC[3];
static void key_creator(void *arg)
{
    struct kcreator *c = (struct kcreator *)arg;
    for (int k = c->first; k < S.nk; k += c->step) {
        ABT_OK(ABT_key_create(dtor, &S.keys[k]));
        sim_yield();
    }
    c->done = 1;
    sim_progress();
}

/* sets keys of other (running) ULTs: races with the owner's lazy key-table creation */
static void remote_setter(void *arg)
{
    (void)arg;
    int rounds = 2 + (int)sim_rand_n(SIM_RS_CHAOS, 4);
    for (int r = 0; r < rounds; r++) {
        for (int i = 0; i < S.n; i++) {
            ku *u = &S.U[i];
            if (u->is_task)
                continue;
            for (int k = 0; k < S.nk; k += 3) {
                if (sim_rand_n(SIM_RS_CHAOS, 3))
                    continue;
                val *v = newval(u->id, k);
                ABT_OK(ABT_thread_set_specific(u->th, S.keys[k], v));
                u->last[k] = v;
                S.remote_sets++;
                void *got = NULL;
                ABT_OK(ABT_thread_get_specific(u->th, S.keys[k], &got));
                SIM_CHECK(got == (void *)v, "key:wrong-value", "ABT_thread_get_specific of unit %d key %d returned %p right after setting %p", u->id, k, got, (void *)v);
                sim_progress();
            }
        }
        sim_yield();
    }
    S.remote_done = 1;
    sim_progress();
}

/* Keys come and go while units that hold values for them live on ("the user is allowed to
 * delete a key before terminating all work units that have non-NULL values associated with
 * key ... the destructor of the deleted key is called when a work unit is freed").  Called by
 * the primary ULT while no other unit touches a key: the replacement is a new key, so every
 * unit reads NULL through it, and what was stored under the deleted key is destroyed exactly
 * once when its unit is freed. */
static void key_churn(int n)
{
    int rounds = plan_range(1, 4);
    ku *me = &S.U[n];
    for (int r = 0; r < rounds; r++) {
        int k = (int)plan_n((uint32_t)S.nk);
        if (plan_bool()) {
            /* make sure the calling unit holds a value under the key that is about to go */
            val *v = newval(n, k);
            ABT_OK(ABT_key_set(S.keys[k], v));
            me->last[k] = v;
        }
        ABT_OK(ABT_key_free(&S.keys[k]));
        SIM_CHECK(S.keys[k] == ABT_KEY_NULL, "key:free", "ABT_key_free left the handle set");
        ABT_OK(ABT_key_create(dtor, &S.keys[k]));
        for (int i = 0; i <= n; i++) {
            ku *u = &S.U[i];
            if (u->last[k]) {
                u->last[k]->orphan = 1;
                SIM_CHECK(u->last[k]->dtor_calls == 0, "key:destructor-early", "ABT_key_free ran the destructor of a value that unit %d still holds", i);
            }
            u->last[k] = NULL;
            u->seen_remote[k] = NULL;
            void *got = (void *)1;
            if (i == n)
                ABT_OK(ABT_key_get(S.keys[k], &got));
            else if (!u->is_task || u->revive)
                ABT_OK(ABT_thread_get_specific(u->th, S.keys[k], &got));
            else
                got = NULL;
            SIM_CHECK(got == NULL, "key:value-leaked", "key slot %d was deleted and created anew; unit %d reads %p through the new key (a value stored under the deleted key)", k, i, got);
        }
        S.churned++;
    }
}

static void run_c16(void)
{
    memset(&S, 0, sizeof S);
    wl_rt *rt = &S.rt;
    wl_rt_start(rt, WL_RT_NO_TOPO2);
    S.nk = plan_range(1, sim_limit("keys", MAXK));
    if (plan_n(4) == 0) {
        /* a long-running process has created and deleted many keys before: key ids are drawn
         * from a process-wide counter that only grows, and the tables index by id */
        int burn = plan_n(8) ? plan_range(200, 1400) : plan_range(60000, 70000);
        for (int i = 0; i < burn; i++) {
            ABT_key k;
            ABT_OK(ABT_key_create(NULL, &k));
            ABT_OK(ABT_key_free(&k));
        }
        sim_note("burnt-key-ids=%d ", burn);
        sim_count("c16.runs_with_high_key_ids", 1);
    }
    {
        /* the keys are created concurrently by the primary and up to two external threads:
         * distinct handles must be distinct keys */
        int ncr = plan_range(1, 3);
        int tid[2];
        for (int c = 1; c < ncr; c++) {
            KC[c].first = c;
            KC[c].step = ncr;
            KC[c].done = 0;
            tid[c - 1] = sim_thread_create(key_creator, &KC[c]);
        }
        for (int k = 0; k < S.nk; k += ncr) {
            ABT_OK(ABT_key_create(dtor, &S.keys[k]));
            sim_yield();
        }
        for (int c = 1; c < ncr; c++) {
            while (!KC[c].done)
                ABT_OK(ABT_thread_yield());
            sim_thread_join(tid[c - 1]);
        }
        for (int a = 0; a < S.nk; a++)
            for (int b = 0; b < a; b++)
                SIM_CHECK(S.keys[a] != S.keys[b], "key:duplicate-handle", "ABT_key_create returned the same handle twice");
    }
    int n = plan_range(1, sim_limit("units", MAXU));
    S.n = n;
    sim_note("C16 keys=%d units=%d: ", S.nk, n);
    for (int i = 0; i <= n; i++) {
        ku *u = &S.U[i];
        u->id = i;
        u->is_task = i < n && plan_n(4) == 0;
        u->pool = (int)plan_n((uint32_t)rt->npools);
        u->nops = plan_range(1, sim_limit("ops", 20));
        u->revive = i < n && plan_n(3) == 0;
        for (int j = 0; j < u->nops; j++) {
            u->ops[j] = (int)plan_n(5); /* 0,1 get; 2,3 set; 4 set NULL */
            u->okey[j] = (int)plan_n((uint32_t)S.nk);
        }
        if (i < n)
            sim_note("%s%d@%d*%d ", u->is_task ? "T" : "U", i, u->pool, u->nops);
    }
    for (int i = 0; i < n; i++) {
        ku *u = &S.U[i];
        if (u->is_task)
            ABT_OK(ABT_task_create(rt->pools[u->pool], unit_fn, u, &u->th));
        else
            ABT_OK(ABT_thread_create(rt->pools[u->pool], unit_fn, u, ABT_THREAD_ATTR_NULL, &u->th));
    }
    int rs_ext = plan_bool();
    ABT_thread rsth = ABT_THREAD_NULL;
    int rstid = -1;
    if (rs_ext)
        rstid = sim_thread_create(remote_setter, NULL);
    else
        ABT_OK(ABT_thread_create(wl_any_pool(rt), remote_setter, NULL, ABT_THREAD_ATTR_NULL, &rsth));
    /* the primary ULT has storage of its own (released by ABT_finalize) */
    self_ops(&S.U[n]);
    if (rs_ext) {
        while (!S.remote_done)
            ABT_OK(ABT_thread_yield());
        sim_thread_join(rstid);
    } else
        ABT_OK(ABT_thread_free(&rsth));
    if (plan_n(3) == 0) {
        for (int i = 0; i < n; i++)
            while (!S.U[i].done)
                ABT_OK(ABT_thread_yield());
        key_churn(n);
    }
    for (int i = 0; i < n; i++) {
        ku *u = &S.U[i];
        /* final read-back of every key from outside, then free: destructors run now */
        if (!u->is_task) {
            ABT_OK(ABT_thread_join(u->th));
            for (int k = 0; k < S.nk; k++) {
                void *got = (void *)1;
                ABT_OK(ABT_thread_get_specific(u->th, S.keys[k], &got));
                SIM_CHECK(got == (void *)u->last[k], "key:wrong-value", "unit %d key %d: final value %p, expected %p", i, k, got, (void *)u->last[k]);
            }
        }
        if (u->revive) {
            /* revive keeps the unit and therefore its storage; destructors run at the free */
            ABT_OK(ABT_thread_join(u->th));
            for (int v = 0; v < S.nv; v++)
                if (S.V[v].unit == i)
                    SIM_CHECK(S.V[v].dtor_calls == 0, "key:destructor-early", "destructor ran for a value of unit %d before the unit was freed", i);
            if (u->is_task)
                ABT_OK(ABT_task_revive(rt->pools[u->pool], revived_fn, u, &u->th));
            else
                ABT_OK(ABT_thread_revive(rt->pools[u->pool], revived_fn, u, &u->th));
            ABT_OK(ABT_thread_join(u->th));
            SIM_CHECK(u->done == 2, "once:not-exactly-once", "revived unit %d did not run", i);
            for (int k = 0; k < S.nk; k++) {
                void *got = (void *)1;
                if (u->is_task) /* (the tasklet-flavoured names of the same routines) */
                    ABT_OK(ABT_task_get_specific(u->th, S.keys[k], &got));
                else
                    ABT_OK(ABT_thread_get_specific(u->th, S.keys[k], &got));
                SIM_CHECK(got == (void *)u->last[k], "key:wrong-value", "unit %d key %d: value after the revived incarnation %p, expected %p", i, k, got, (void *)u->last[k]);
            }
            S.revives++;
        }
        ABT_OK(ABT_thread_free(&u->th));
        for (int k = 0; k < S.nk; k++)
            if (u->last[k])
                SIM_CHECK(u->last[k]->dtor_calls == 1, "key:destructor-missing", "unit %d key %d: destructor ran %d times for the value still stored when the unit was freed", i,
                          k, u->last[k]->dtor_calls);
        for (int v = 0; v < S.nv; v++)
            if (S.V[v].unit == i && S.V[v].orphan)
                SIM_CHECK(S.V[v].dtor_calls == 1, "key:destructor-missing", "unit %d: destructor ran %d times for value #%d, stored under a key that was deleted before the unit was freed", i,
                          S.V[v].dtor_calls, S.V[v].seq);
        sim_progress();
    }
    /* every destructor call so far must be for a value that was the last one of a freed unit */
    for (int v = 0; v < S.nv; v++) {
        val *x = &S.V[v];
        int is_last = S.U[x->unit].last[x->key] == x || x->orphan;
        if (x->unit < n)
            SIM_CHECK(x->dtor_calls == (is_last ? 1 : 0), "key:destructor-count", "value #%d of unit %d key %d (%s): destructor ran %d times", x->seq, x->unit, x->key,
                      is_last ? "stored at free" : "overwritten earlier", x->dtor_calls);
        else
            SIM_CHECK(x->dtor_calls == 0, "key:destructor-early", "destructor ran for a value of the live primary ULT");
    }
    for (int k = 0; k < S.nk; k++)
        ABT_OK(ABT_key_free(&S.keys[k]));
    wl_rt_stop(rt);
    /* the primary ULT's values were released by ABT_finalize */
    for (int v = 0; v < S.nv; v++) {
        val *x = &S.V[v];
        if (x->unit == n) {
            int is_last = S.U[n].last[x->key] == x || x->orphan;
            SIM_CHECK(x->dtor_calls == (is_last ? 1 : 0), "key:destructor-count", "primary ULT key %d value #%d (%s): destructor ran %d times by ABT_finalize", x->key, x->seq,
                      is_last ? "stored" : "overwritten", x->dtor_calls);
        }
    }
    sim_count("c16.gets", (uint64_t)S.gets);
    sim_count("c16.remote_sets_while_owner_runs", (uint64_t)S.remote_sets);
    sim_count("c16.destructor_calls", (uint64_t)S.dtors);
    sim_count("c16.revives", (uint64_t)S.revives);
    sim_count("c16.keys_replaced_while_values_live", (uint64_t)S.churned);
}
SIM_WORKLOAD("C16", "keys", run_c16, 10)
