/* Scenario "refusals" (C12, C17, C03): lifecycle calls that the documentation refuses with an
 * error code -- a unit joining, freeing or yielding to itself, anything aimed at the primary ULT
 * or the primary stream, a stream joining or freeing itself, reviving what has not terminated,
 * resuming what is not blocked, a scheduler that is in use offered a second time, leaving the
 * primary stream.  Each call must return the documented code, and nothing may have happened:
 * afterwards the same objects are used, joined and freed the ordinary way. */
#include "wl_common.h"

static struct {
    wl_rt rt;
    ABT_thread primary, w;
    ABT_xstream xprimary;
    volatile int release, w_checked, w_done;
    int w_es;
    long refused;
} RF;

#define REFUSED(call, want)                                                                             \
    do {                                                                                                \
        int rc_ = (call);                                                                               \
        SIM_CHECK(rc_ == (want), "refusal:error-code", "%s returned %d, documented: %s (%d)", #call, rc_, #want, (want)); \
        RF.refused++;                                                                                   \
        sim_progress();                                                                                 \
    } while (0)

static void rf_nop(void *arg)
{
    (void)arg;
}

/* a ULT on a secondary stream (when there is one): what it may not do to itself, to its stream
 * and to the primary ULT */
static void rf_worker(void *arg)
{
    (void)arg;
    ABT_thread self, copy;
    ABT_xstream xs, xcopy;
    ABT_OK(ABT_self_get_thread(&self));
    ABT_OK(ABT_self_get_xstream(&xs));
    REFUSED(ABT_thread_join(self), ABT_ERR_INV_THREAD);
    copy = self;
    REFUSED(ABT_thread_free(&copy), ABT_ERR_INV_THREAD);
    REFUSED(ABT_thread_yield_to(self), ABT_ERR_INV_THREAD);
    REFUSED(ABT_thread_resume(self), ABT_ERR_THREAD);
    REFUSED(ABT_thread_join(RF.primary), ABT_ERR_INV_THREAD);
    copy = RF.primary;
    REFUSED(ABT_thread_free(&copy), ABT_ERR_INV_THREAD);
    REFUSED(ABT_thread_cancel(RF.primary), ABT_ERR_INV_THREAD);
    if (xs != RF.xprimary) {
        /* its own stream cannot be freed from inside.  (ABT_xstream_join of the caller's own
         * stream is documented as refused too, but the library refuses it only to the main
         * scheduler's own ULT; no listed property speaks about it, so it is not called here.) */
        xcopy = xs;
        REFUSED(ABT_xstream_free(&xcopy), ABT_ERR_INV_XSTREAM);
        REFUSED(ABT_xstream_revive(xs), ABT_ERR_INV_XSTREAM);
    } else
        REFUSED(ABT_xstream_exit(), ABT_ERR_INV_XSTREAM);
    REFUSED(ABT_xstream_join(RF.xprimary), ABT_ERR_INV_XSTREAM);
    REFUSED(ABT_xstream_cancel(RF.xprimary), ABT_ERR_INV_XSTREAM);
    RF.w_checked = 1;
    while (!RF.release)
        ABT_OK(ABT_thread_yield());
    RF.w_done++;
    sim_progress();
}

static void run_refusals(void)
{
    memset(&RF, 0, sizeof RF);
    wl_rt *rt = &RF.rt;
    wl_rt_start(rt, WL_RT_NO_TOPO2 | (plan_n(3) ? WL_RT_MIN2ES : 0));
    ABT_thread copy;
    ABT_xstream xcopy;
    ABT_OK(ABT_self_get_thread(&RF.primary));
    ABT_OK(ABT_self_get_xstream(&RF.xprimary));
    int wp = (int)plan_n((uint32_t)rt->npools);
    sim_note("refusals worker@%d ", wp);
    ABT_OK(ABT_thread_create(rt->pools[wp], rf_worker, NULL, ABT_THREAD_ATTR_NULL, &RF.w));
    /* the primary ULT, about itself and its stream */
    REFUSED(ABT_thread_join(RF.primary), ABT_ERR_INV_THREAD);
    copy = RF.primary;
    REFUSED(ABT_thread_free(&copy), ABT_ERR_INV_THREAD);
    REFUSED(ABT_thread_cancel(RF.primary), ABT_ERR_INV_THREAD);
    REFUSED(ABT_thread_yield_to(RF.primary), ABT_ERR_INV_THREAD);
    REFUSED(ABT_thread_resume(RF.primary), ABT_ERR_THREAD);
    REFUSED(ABT_xstream_join(RF.xprimary), ABT_ERR_INV_XSTREAM);
    xcopy = RF.xprimary;
    REFUSED(ABT_xstream_free(&xcopy), ABT_ERR_INV_XSTREAM);
    REFUSED(ABT_xstream_cancel(RF.xprimary), ABT_ERR_INV_XSTREAM);
    REFUSED(ABT_xstream_revive(RF.xprimary), ABT_ERR_INV_XSTREAM);
    {
        int rc = ABT_xstream_exit(); /* (the primary ULT: either documented reason applies) */
        SIM_CHECK(rc == ABT_ERR_INV_XSTREAM || rc == ABT_ERR_INV_THREAD, "refusal:error-code", "ABT_xstream_exit called by the primary ULT returned %d", rc);
        RF.refused++;
    }
    /* the live worker: not terminated, never blocked */
    while (!RF.w_checked)
        ABT_OK(ABT_thread_yield());
    REFUSED(ABT_thread_revive(rt->pools[wp], rf_nop, NULL, &RF.w), ABT_ERR_INV_THREAD);
    REFUSED(ABT_thread_resume(RF.w), ABT_ERR_THREAD);
    /* running streams cannot be revived; a main scheduler in use cannot be given away again */
    for (int e = 1; e < rt->nes; e++) {
        ABT_sched sc;
        REFUSED(ABT_xstream_revive(rt->xs[e]), ABT_ERR_INV_XSTREAM);
        ABT_OK(ABT_xstream_get_main_sched(rt->xs[e], &sc));
        REFUSED(ABT_pool_add_sched(rt->pools[wp], sc), ABT_ERR_INV_SCHED);
        REFUSED(ABT_xstream_set_main_sched(RF.xprimary, sc), ABT_ERR_INV_SCHED);
    }
    /* nothing happened: the worker ends, is joined, and can now be revived and freed */
    ABT_thread_state st;
    ABT_OK(ABT_thread_get_state(RF.w, &st));
    SIM_CHECK(st != ABT_THREAD_STATE_TERMINATED && RF.w_done == 0, "refusal:had-an-effect", "the worker ended (state %d) although every call aimed at it was refused", (int)st);
    RF.release = 1;
    ABT_OK(ABT_thread_join(RF.w));
    SIM_CHECK(RF.w_done == 1, "once:not-exactly-once", "the worker ran its body %d times", RF.w_done);
    ABT_OK(ABT_thread_revive(rt->pools[wp], rf_nop, NULL, &RF.w));
    ABT_OK(ABT_thread_free(&RF.w));
    for (int e = 1; e < rt->nes; e++) {
        ABT_xstream_state xst;
        ABT_OK(ABT_xstream_get_state(rt->xs[e], &xst));
        SIM_CHECK(xst == ABT_XSTREAM_STATE_RUNNING, "refusal:had-an-effect", "stream %d is in state %d after calls that were all refused", e, (int)xst);
    }
    sim_count("refusals.calls_refused", (uint64_t)RF.refused);
    wl_rt_stop(rt);
}
static void run_c12_refusals(void)
{
    run_refusals();
}
static void run_c17_refusals(void)
{
    run_refusals();
}
static void run_c03_refusals(void)
{
    run_refusals();
}
SIM_WORKLOAD("C12", "refusals", run_c12_refusals, 1)
SIM_WORKLOAD("C17", "refusals", run_c17_refusals, 1)
SIM_WORKLOAD("C03", "refusals", run_c03_refusals, 1)
/* C11: ABT_thread_resume of a unit that is not blocked is refused and does not make it run twice */
static void run_c11_refusals(void)
{
    run_refusals();
}
SIM_WORKLOAD("C11", "refusals", run_c11_refusals, 1)
