/* C08: barriers release nobody early and everybody once the last waiter arrives */
#include "wl_common.h"

#define MAXA 8
#define MAXR 6

static struct {
    wl_rt rt;
    ABT_barrier b;
    int nA, R;
    int nr[MAXR];          /* participants of round r: actors 0..nr[r]-1 */
    int reinit_before[MAXR]; /* reinit (possibly with a new count) before round r */
    volatile int arrived[MAXR], returned[MAXR], gate[MAXR];
    wl_actor A[MAXA];
    long laps;
    int free_by_waiter; /* the first caller that returns from the last round frees the barrier at once */
    volatile int free_claimed;
    /* a cancellation request reaches one ULT waiter of the last round while it is (about to be)
     * blocked in the barrier: it stays counted, is released with everybody else and ends at its
     * next scheduling point; everybody else returns */
    int victim;
    volatile int victim_entered, spawned, cancel_sent, victim_returned;
} S;

static void wait_flag(wl_actor *a, volatile int *f)
{
    while (!*f)
        wl_actor_pause(a, 1);
}

static void body(wl_actor *a)
{
    for (int r = 0; r < S.R; r++) {
        a->cur_op = r;
        if (a->id >= S.nr[r])
            continue;
        if (S.reinit_before[r]) {
            if (a->id == 0) {
                /* everybody has left round r-1 and nobody enters round r before the gate opens */
                while (r > 0 && S.returned[r - 1] < S.nr[r - 1])
                    wl_actor_pause(a, 1);
                ABT_OK(ABT_barrier_reinit(S.b, (uint32_t)S.nr[r]));
                uint32_t nw = 0;
                ABT_OK(ABT_barrier_get_num_waiters(S.b, &nw));
                SIM_CHECK((int)nw == S.nr[r], "barrier:reinit", "ABT_barrier_get_num_waiters = %u after reinit to %d", nw, S.nr[r]);
                S.gate[r] = 1;
                sim_progress();
            } else
                wait_flag(a, &S.gate[r]);
        }
        if (a->kind == AK_TASKLET) {
            /* documented for the 1.x API: a tasklet cannot wait on a barrier */
            int rc = ABT_barrier_wait(S.b);
            SIM_CHECK(rc == ABT_ERR_BARRIER, "barrier:tasklet", "ABT_barrier_wait on a tasklet returned %d", rc);
            return;
        }
        if (r > 0 && S.returned[r - 1] < S.nr[r - 1])
            S.laps++; /* re-entering while others are still leaving the previous round */
        S.arrived[r]++;
        if (a->id == S.victim && r == S.R - 1)
            S.victim_entered = 1;
        ABT_OK(ABT_barrier_wait(S.b));
        SIM_CHECK(S.arrived[r] == S.nr[r], "barrier:released-early", "actor %d returned from round %d after only %d of %d waiters had arrived", a->id, r, S.arrived[r],
                  S.nr[r]);
        if (r + 1 < S.R && !S.reinit_before[r + 1] && a->id < S.nr[r + 1])
            SIM_CHECK(S.arrived[r + 1] < S.nr[r + 1], "barrier:round-mixup", "round %d is complete before actor %d left round %d", r + 1, a->id, r);
        S.returned[r]++;
        if (a->id == S.victim && r == S.R - 1)
            S.victim_returned = 1;
        if (S.free_by_waiter && r == S.R - 1 && !S.free_claimed) {
            /* everybody has been released (some may still be on their way out of
             * ABT_barrier_wait, the last arriver possibly still waking the others): the barrier
             * is not in use any more and may be freed, like a pthread barrier */
            S.free_claimed = 1;
            ABT_OK(ABT_barrier_free(&S.b));
            sim_count("c08.freed_by_released_waiter", 1);
        }
        sim_progress();
        for (int k = 0; k < (a->args[r] & 3); k++)
            wl_actor_pause(a, 1);
    }
}

static void canceller(void *arg)
{
    int pauses = (int)(long)arg;
    while (!S.victim_entered || !S.spawned)
        sim_yield();
    for (int i = 0; i < pauses; i++)
        sim_yield();
    ABT_OK(ABT_thread_cancel(S.A[S.victim].th));
    S.cancel_sent = 1;
    sim_progress();
}

static void diag(char *buf, int sz)
{
    int k = 0;
    for (int r = 0; r < S.R && k < sz - 30; r++)
        k += snprintf(buf + k, (size_t)(sz - k), "r%d:n%d/arr%d/ret%d ", r, S.nr[r], S.arrived[r], S.returned[r]);
    wl_actors_diag(S.A, S.nA, buf + k, sz - k);
}

static void run_c08(void)
{
    memset(&S, 0, sizeof S);
    sim_set_diag_cb(diag);
    wl_rt *rt = &S.rt;
    wl_rt_start(rt, WL_RT_NO_TOPO2);
    int n = plan_range(1, sim_limit("actors", 6));
    S.nA = n;
    S.R = plan_range(1, sim_limit("rounds", 5));
    for (int r = 0; r < S.R; r++) {
        S.reinit_before[r] = r > 0 && plan_n(4) == 0;
        S.nr[r] = r == 0 ? n : S.reinit_before[r] ? plan_range(1, n) : S.nr[r - 1];
    }
    ABT_OK(ABT_barrier_create((uint32_t)n, &S.b));
    S.free_by_waiter = plan_n(3) == 0;
    sim_note("C08 barrier n=%d%s rounds=", n, S.free_by_waiter ? " free-by-waiter" : "");
    for (int r = 0; r < S.R; r++)
        sim_note("%s%d", S.reinit_before[r] ? "|reinit:" : ",", S.nr[r]);
    sim_note(" actors:");
    int ntask = 0;
    for (int i = 0; i < n; i++) {
        wl_actor *a = &S.A[i];
        a->id = i;
        a->kind = plan_n(3) == 0 ? AK_EXT : AK_ULT;
        a->pool = (int)plan_n((uint32_t)rt->npools);
        a->body = body;
        for (int r = 0; r < S.R; r++)
            a->args[r] = (int)plan_n(16);
        sim_note(" %s@%d", wl_actor_kind_names[a->kind], a->pool);
    }
    S.victim = -1;
    int ctid = -1;
    if (!S.free_by_waiter && plan_n(4) == 0) {
        int v = (int)plan_n((uint32_t)S.nr[S.R - 1]);
        if (S.A[v].kind == AK_ULT) {
            S.victim = v;
            S.A[v].cancelled_ok = 1;
            sim_note(" cancel-waiter=%d", v);
            ctid = sim_thread_create(canceller, (void *)(long)plan_n(60));
        }
    }
    wl_actors_spawn(rt, S.A, n);
    S.spawned = 1;
    /* a tasklet only gets the documented error */
    wl_actor T;
    memset(&T, 0, sizeof T);
    if (plan_n(4) == 0 && !S.free_by_waiter) {
        T.id = 0;
        T.kind = AK_TASKLET;
        T.pool = (int)plan_n((uint32_t)rt->npools);
        T.body = body;
        ntask = 1;
    }
    if (ctid >= 0) {
        /* the victim's handle stays valid until the request has been issued */
        while (!S.cancel_sent)
            ABT_OK(ABT_thread_yield());
        sim_thread_join(ctid);
    }
    wl_actors_join(rt, S.A, n);
    if (ntask) {
        /* after the real waiters are done so that the counter is untouched */
        int saveR = S.R;
        S.R = 1;
        S.reinit_before[0] = 0;
        wl_actors_spawn(rt, &T, 1);
        wl_actors_join(rt, &T, 1);
        S.R = saveR;
    }
    if (ctid >= 0)
        sim_count("c08.waiters_cancelled_in_the_barrier", S.victim_returned ? 0 : 1);
    for (int r = 0; r < S.R; r++) {
        int missing = (S.victim >= 0 && r == S.R - 1 && !S.victim_returned) ? 1 : 0;
        SIM_CHECK(S.returned[r] + missing == S.nr[r], "barrier:missing-return", "round %d: %d of %d waiters returned", r, S.returned[r], S.nr[r]);
    }
    sim_count("c08.lapping_entries", (uint64_t)S.laps);
    if (!S.free_by_waiter)
        ABT_OK(ABT_barrier_free(&S.b));
    else
        SIM_CHECK(S.free_claimed && S.b == ABT_BARRIER_NULL, "barrier:free", "the barrier was not freed by the released waiter");
    wl_rt_stop(rt);
}
SIM_WORKLOAD("C08", "barrier", run_c08, 10)

/* ---- execution-stream barrier: one caller per stream (the wrapper in V0, Argobots' own
 * sense-reversal barrier in build variant V1) ---- */
static struct {
    int n, R;
    ABT_xstream_barrier xb;
    volatile int arrived[MAXR], returned[MAXR];
} X;

static void xb_body(void *arg)
{
    (void)arg;
    for (int r = 0; r < X.R; r++) {
        X.arrived[r]++;
        ABT_OK(ABT_xstream_barrier_wait(X.xb));
        SIM_CHECK(X.arrived[r] == X.n, "xbarrier:released-early", "a stream returned from round %d after only %d of %d had arrived", r, X.arrived[r], X.n);
        X.returned[r]++;
        sim_progress();
    }
}

static void xb_ext(void *arg)
{
    xb_body(arg);
}
static void run_c08_x(void)
{
    memset(&X, 0, sizeof X);
    wl_rt rt;
    /* any number of streams, one is enough: external threads are legal callers too ("if the
     * caller is either a ULT or a tasklet, the underlying execution stream is blocked") */
    wl_rt_start(&rt, WL_RT_PRIVATE_ONLY | (plan_n(3) ? WL_RT_MIN2ES : 0));
    int nes_part = plan_n(4) == 0 ? plan_range(1, rt.nes) : rt.nes; /* streams 0..nes_part-1 take part */
    int next = plan_n(2) ? plan_range(0, 3) : 0;
    if (nes_part + next < 1)
        next = 1;
    X.n = nes_part + next;
    X.R = plan_range(1, sim_limit("rounds", 5));
    sim_note("C08 xstream-barrier streams=%d of %d, external threads=%d, rounds=%d", nes_part, rt.nes, next, X.R);
    ABT_OK(ABT_xstream_barrier_create((uint32_t)X.n, &X.xb));
    ABT_thread th[WL_MAX_ES];
    int is_task[WL_MAX_ES] = { 0 };
    for (int e = 1; e < nes_part; e++) {
        is_task[e] = plan_n(4) == 0;
        if (is_task[e])
            ABT_OK(ABT_task_create(rt.pools[rt.es_first_pool[e]], xb_body, NULL, &th[e]));
        else
            ABT_OK(ABT_thread_create(rt.pools[rt.es_first_pool[e]], xb_body, NULL, ABT_THREAD_ATTR_NULL, &th[e]));
    }
    int xt[4];
    for (int i = 0; i < next; i++)
        xt[i] = sim_thread_create(xb_ext, NULL);
    xb_body(NULL);
    for (int e = 1; e < nes_part; e++)
        ABT_OK(ABT_thread_free(&th[e]));
    for (int i = 0; i < next; i++)
        sim_thread_join(xt[i]);
    for (int r = 0; r < X.R; r++)
        SIM_CHECK(X.returned[r] == X.n, "xbarrier:missing-return", "round %d: %d of %d returned", r, X.returned[r], X.n);
    if (next)
        sim_count("c08.xbarrier_rounds_with_external_threads", (uint64_t)X.R);
    ABT_OK(ABT_xstream_barrier_free(&X.xb));
    wl_rt_stop(&rt);
}
SIM_WORKLOAD("C08", "xstream-barrier", run_c08_x, 3)
