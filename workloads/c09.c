/* C09: eventuals and futures become ready exactly once and wake every waiter */
#include "wl_common.h"

#define MAXA 8
#define MAXR 4
enum { E_WAIT = 0, E_SET, E_TEST, E_N, E_TWAIT /* a tasklet's wait: refused under the 1.x API */ };

static struct {
    wl_rt rt;
    ABT_eventual ev;
    int nbytes;
    int R, nA;
    /* per round */
    volatile int set_invoked[MAXR], set_ok[MAXR], set_err[MAXR], waits_ret[MAXR], nwait[MAXR], nset[MAXR];
    volatile uint64_t winner_val[MAXR];
    volatile int gate[MAXR], arrived_end[MAXR];
    wl_actor A[MAXA];
    long tests_ready, tests_notready, waits_blocked_first, tasklet_refusals;
} S;

#define BIGV 70016
static unsigned char big_value[MAXA][BIGV]; /* one source buffer per setter */
static void check_value(void *buf, int r, const char *api, int id)
{
    if (S.nbytes == 0) {
        SIM_CHECK(buf == NULL, "eventual:value", "%s returned a buffer for a 0-byte eventual", api);
        return;
    }
    SIM_CHECK(buf != NULL, "eventual:value", "%s returned no buffer", api);
    uint64_t v = *(volatile uint64_t *)buf;
    if (S.nbytes > 8) {
        /* a large value: the same word at both ends and the setter's byte in between */
        uint64_t tail;
        memcpy(&tail, (char *)buf + S.nbytes - 8, 8);
        SIM_CHECK(tail == v, "eventual:value", "%s by actor %d: the %d-byte value starts with %#lx and ends with %#lx", api, id, S.nbytes, (unsigned long)v, (unsigned long)tail);
        unsigned char mid = ((unsigned char *)buf)[S.nbytes / 2];
        SIM_CHECK(mid == (unsigned char)(v & 0xff), "eventual:value", "%s by actor %d: byte %d of the %d-byte value is %#x, set: %#x", api, id, S.nbytes / 2, S.nbytes, mid,
                  (unsigned)(v & 0xff));
    }
    /* the value of the successful set of this round (its setter recorded it before returning);
     * with racing setters the winner may not have recorded yet: then any setter's value of
     * this round is acceptable, but never a value of another round or garbage */
    SIM_CHECK((v >> 8) == (0xe00000ULL | (uint64_t)r), "eventual:value", "%s by actor %d in round %d read %#lx: not a value set in this round", api, id, r, (unsigned long)v);
    if (S.winner_val[r])
        SIM_CHECK(v == S.winner_val[r], "eventual:value", "%s by actor %d read %#lx but the successful set wrote %#lx", api, id, (unsigned long)v,
                  (unsigned long)S.winner_val[r]);
}

static void ev_body(wl_actor *a)
{
    for (int r = 0; r < S.R; r++) {
        a->cur_op = r;
        /* round gate: the primary resets the eventual while nobody uses it */
        while (!S.gate[r])
            wl_actor_pause(a, 1);
        int op = a->ops[r], arg = a->args[r];
        for (int k = 0; k < (arg & 3); k++)
            wl_actor_pause(a, 1);
        if (op == E_TWAIT && a->kind != AK_TASKLET)
            op = E_TEST;
        switch (op) {
            case E_TWAIT: {
                void *buf = (void *)1;
                int rc = ABT_eventual_wait(S.ev, &buf);
                SIM_CHECK(rc == ABT_ERR_EVENTUAL, "eventual:tasklet", "ABT_eventual_wait called by a tasklet returned %d, documented: ABT_ERR_EVENTUAL (%d)", rc, ABT_ERR_EVENTUAL);
                S.tasklet_refusals++;
                break;
            }
            case E_WAIT: {
                void *buf = (void *)1;
                if (!S.set_invoked[r])
                    S.waits_blocked_first++;
                ABT_OK(ABT_eventual_wait(S.ev, (arg & 4) ? NULL : &buf));
                SIM_CHECK(S.set_invoked[r], "eventual:wait-before-set", "ABT_eventual_wait of actor %d returned in round %d before any ABT_eventual_set was invoked", a->id, r);
                if (!(arg & 4))
                    check_value(buf, r, "ABT_eventual_wait", a->id);
                S.waits_ret[r]++;
                break;
            }
            case E_SET: {
                uint64_t v = ((0xe00000ULL | (uint64_t)r) << 8) | (uint64_t)(a->id + 1);
                S.set_invoked[r] = 1;
                void *src = &v;
                if (S.nbytes > 8) {
                    unsigned char *b = big_value[a->id];
                    memset(b, (int)(v & 0xff), (size_t)S.nbytes);
                    memcpy(b, &v, 8);
                    memcpy(b + S.nbytes - 8, &v, 8);
                    src = b;
                }
                int rc = ABT_eventual_set(S.ev, S.nbytes ? src : NULL, S.nbytes);
                if (rc == ABT_SUCCESS) {
                    S.set_ok[r]++;
                    S.winner_val[r] = v;
                } else {
                    SIM_CHECK(rc == ABT_ERR_EVENTUAL, "api-error", "ABT_eventual_set returned %d", rc);
                    S.set_err[r]++;
                }
                break;
            }
            case E_TEST: {
                void *buf = (void *)1;
                ABT_bool ready = ABT_FALSE;
                int inv = S.set_invoked[r];
                (void)inv;
                ABT_OK(ABT_eventual_test(S.ev, &buf, &ready));
                if (ready) {
                    SIM_CHECK(S.set_invoked[r], "eventual:ready-before-set", "ABT_eventual_test reported ready in round %d before any set was invoked", r);
                    check_value(buf, r, "ABT_eventual_test", a->id);
                    S.tests_ready++;
                } else
                    S.tests_notready++;
                break;
            }
        }
        sim_progress();
        S.arrived_end[r]++;
    }
}

static void ev_diag(char *buf, int sz)
{
    int k = 0;
    for (int r = 0; r < S.R && k < sz - 40; r++)
        k += snprintf(buf + k, (size_t)(sz - k), "r%d:gate%d/set%d+%d/waits%d of %d/end%d ", r, S.gate[r], S.set_ok[r], S.set_err[r], S.waits_ret[r], S.nwait[r], S.arrived_end[r]);
    wl_actors_diag(S.A, S.nA, buf + k, sz - k);
}

static void run_c09_eventual(void)
{
    memset(&S, 0, sizeof S);
    sim_set_diag_cb(ev_diag);
    wl_rt *rt = &S.rt;
    wl_rt_start(rt, WL_RT_NO_TOPO2);
    S.nbytes = plan_bool() ? 8 : 0;
    if (plan_n(16) == 0) {
        /* the value is an array of bytes of any length */
        static const int big[] = { 24, 4096, 65535 + 9, 65536, 65536 + 8, 70000 };
        S.nbytes = big[plan_n(6)];
    }
    ABT_OK(ABT_eventual_create(S.nbytes, &S.ev));
    int n = plan_range(2, sim_limit("actors", 6));
    S.nA = n;
    S.R = plan_range(1, sim_limit("rounds", 3));
    static const char *opn[] = { "wait", "set", "test" };
    sim_note("C09 eventual nbytes=%d rounds=%d: ", S.nbytes, S.R);
    for (int i = 0; i < n; i++) {
        wl_actor *a = &S.A[i];
        a->id = i;
        int k = (int)plan_n(10);
        a->kind = k < 5 ? AK_ULT : k < 8 ? AK_EXT : AK_TASKLET;
        a->pool = (int)plan_n((uint32_t)rt->npools);
        a->body = ev_body;
        sim_note("[%s@%d", wl_actor_kind_names[a->kind], a->pool);
        for (int r = 0; r < S.R; r++) {
            int op = (i == 0) ? E_SET : (int)plan_n(E_N); /* every round has a setter */
            if (a->kind == AK_TASKLET && op == E_WAIT)
                op = E_TWAIT;
            /* a tasklet gate-spins on its stream: it must not be needed by ... nothing here blocks on it */
            a->ops[r] = op;
            a->args[r] = (int)plan_n(8);
            if (op == E_WAIT)
                S.nwait[r]++;
            if (op == E_SET)
                S.nset[r]++;
            sim_note(" %s", op == E_TWAIT ? "refused-wait" : opn[op]);
        }
        sim_note("] ");
    }
    /* a tasklet cannot wait at a round gate without occupying its stream: tasklets take part
     * only in single-round runs, where the gate is open from the start */
    for (int i = 0; i < n; i++)
        if (S.A[i].kind == AK_TASKLET && S.R > 1)
            S.A[i].kind = AK_ULT;
    S.gate[0] = 1;
    wl_actors_spawn(rt, S.A, n);
    for (int r = 0; r < S.R; r++) {
        if (r > 0) {
            /* quiescent: everybody finished the previous round */
            while (S.arrived_end[r - 1] < n)
                ABT_OK(ABT_thread_yield());
            ABT_OK(ABT_eventual_reset(S.ev));
            ABT_bool ready = ABT_TRUE;
            ABT_OK(ABT_eventual_test(S.ev, NULL, &ready));
            SIM_CHECK(!ready, "eventual:reset", "eventual still ready after ABT_eventual_reset");
        }
        S.gate[r] = 1;
        sim_progress();
    }
    wl_actors_join(rt, S.A, n);
    for (int r = 0; r < S.R; r++) {
        SIM_CHECK(S.set_ok[r] == 1, "eventual:set-count", "round %d: %d ABT_eventual_set calls succeeded (%d failed); exactly one must", r, S.set_ok[r], S.set_err[r]);
        SIM_CHECK(S.waits_ret[r] == S.nwait[r], "eventual:lost-waiter", "round %d: %d of %d waiters returned", r, S.waits_ret[r], S.nwait[r]);
    }
    sim_count("c09.waits_blocked_before_set", (uint64_t)S.waits_blocked_first);
    sim_count("c09.tests_ready", (uint64_t)S.tests_ready);
    sim_count("c09.tasklet_waits_refused", (uint64_t)S.tasklet_refusals);
    ABT_OK(ABT_eventual_free(&S.ev));
    wl_rt_stop(rt);
}
SIM_WORKLOAD("C09", "eventual", run_c09_eventual, 10)

/* ------------------------------------------------------------------ futures */
static struct {
    wl_rt rt;
    ABT_future fut;
    int k, with_cb, nA;
    volatile int sets_invoked, sets_ok, sets_err, cb_calls, cb_done, waits_ret, nwait;
    volatile int cb_bad;
    void *vals[8];
    wl_actor A[MAXA];
} F;

static void fut_cb(void **args)
{
    F.cb_calls++;
    /* all values, each exactly once (the order is the order of the sets) */
    int seen[8] = { 0 };
    for (int i = 0; i < F.k; i++) {
        int found = -1;
        for (int j = 0; j < 8; j++) /* any setter's value (late setters fail), each at most once */
            if (args[i] == F.vals[j])
                found = j;
        if (found < 0 || seen[found])
            F.cb_bad = 1;
        else
            seen[found] = 1;
    }
    if (F.waits_ret > 0)
        F.cb_bad = 2; /* a waiter returned before the callback */
    F.cb_done = 1;
}

static void fut_body(wl_actor *a)
{
    int op = a->ops[0], arg = a->args[0];
    for (int k = 0; k < (arg & 3); k++)
        wl_actor_pause(a, 1);
    switch (op) {
        case E_TWAIT: {
            int rc = ABT_future_wait(F.fut);
            SIM_CHECK(rc == ABT_ERR_FUTURE, "future:tasklet", "ABT_future_wait called by a tasklet returned %d, documented: ABT_ERR_FUTURE (%d)", rc, ABT_ERR_FUTURE);
            sim_count("c09.tasklet_waits_refused", 1);
            break;
        }
        case E_WAIT:
            ABT_OK(ABT_future_wait(F.fut));
            SIM_CHECK(F.sets_invoked >= F.k, "future:wait-before-ready", "ABT_future_wait returned after only %d of %d sets were invoked", F.sets_invoked, F.k);
            if (F.with_cb && F.k > 0)
                SIM_CHECK(F.cb_done, "future:waiter-before-callback", "a waiter returned before the callback completed");
            F.waits_ret++;
            break;
        case E_SET: {
            F.sets_invoked++;
            int rc = ABT_future_set(F.fut, F.vals[a->args[1]]);
            if (rc == ABT_SUCCESS)
                F.sets_ok++;
            else {
                SIM_CHECK(rc == ABT_ERR_FUTURE, "api-error", "ABT_future_set returned %d", rc);
                F.sets_err++;
            }
            break;
        }
        case E_TEST: {
            ABT_bool ready = ABT_FALSE;
            ABT_OK(ABT_future_test(F.fut, &ready));
            if (ready) {
                SIM_CHECK(F.sets_invoked >= F.k, "future:ready-before-sets", "ABT_future_test reported ready after %d of %d sets were invoked", F.sets_invoked, F.k);
                if (F.with_cb && F.k > 0)
                    SIM_CHECK(F.cb_done, "future:ready-before-callback", "future reported ready before the callback completed");
            }
            break;
        }
    }
    sim_progress();
}

static void fut_diag(char *buf, int sz)
{
    int k = snprintf(buf, (size_t)sz, "k=%d sets inv%d ok%d err%d cb%d waits %d/%d ", F.k, F.sets_invoked, F.sets_ok, F.sets_err, F.cb_calls, F.waits_ret, F.nwait);
    wl_actors_diag(F.A, F.nA, buf + k, sz - k);
}

static void run_c09_future(void)
{
    memset(&F, 0, sizeof F);
    sim_set_diag_cb(fut_diag);
    wl_rt *rt = &F.rt;
    wl_rt_start(rt, WL_RT_NO_TOPO2);
    F.k = (int)plan_n(6);
    F.with_cb = plan_bool();
    static long cells[8];
    for (int i = 0; i < 8; i++)
        F.vals[i] = &cells[i];
    ABT_OK(ABT_future_create((uint32_t)F.k, F.with_cb ? fut_cb : NULL, &F.fut));
    int extra_sets = (int)plan_n(3);           /* late sets that must fail */
    int nwait = plan_range(0, 3), ntest = plan_range(0, 2);
    int n = F.k + extra_sets + nwait + ntest;
    if (n > MAXA) {
        nwait = 1;
        ntest = 0;
        extra_sets = MAXA - F.k - nwait > 2 ? 2 : MAXA - F.k - nwait;
        n = F.k + extra_sets + nwait;
    }
    if (n == 0) {
        nwait = 1;
        n = 1;
    }
    F.nA = n;
    F.nwait = nwait;
    sim_note("C09 future k=%d cb=%d sets=%d waiters=%d testers=%d: ", F.k, F.with_cb, F.k + extra_sets, nwait, ntest);
    for (int i = 0; i < n; i++) {
        wl_actor *a = &F.A[i];
        a->id = i;
        int kk = (int)plan_n(10);
        a->kind = kk < 5 ? AK_ULT : kk < 8 ? AK_EXT : AK_TASKLET;
        a->pool = (int)plan_n((uint32_t)rt->npools);
        a->body = fut_body;
        a->nops = 1;
        a->ops[0] = i < F.k + extra_sets ? E_SET : i < F.k + extra_sets + nwait ? E_WAIT : E_TEST;
        if (a->ops[0] == E_WAIT && a->kind == AK_TASKLET)
            a->kind = AK_ULT;
        if (a->ops[0] == E_TEST && a->kind == AK_TASKLET && plan_bool())
            a->ops[0] = E_TWAIT; /* a tasklet tries to wait: refused, and the future is none the worse for it */
        a->args[0] = (int)plan_n(8);
        a->args[1] = i < 8 ? i : 7;
        sim_note("%s:%s ", wl_actor_kind_names[a->kind], a->ops[0] == E_SET ? "set" : a->ops[0] == E_WAIT ? "wait" : a->ops[0] == E_TWAIT ? "refused-wait" : "test");
    }
    if (F.k == 0) {
        ABT_bool ready = ABT_FALSE;
        ABT_OK(ABT_future_test(F.fut, &ready));
        SIM_CHECK(ready, "future:zero-compartments", "a future with 0 compartments is not ready");
    }
    wl_actors_spawn(rt, F.A, n);
    wl_actors_join(rt, F.A, n);
    SIM_CHECK(F.sets_ok == F.k, "future:set-count", "%d sets succeeded for %d compartments (%d failed)", F.sets_ok, F.k, F.sets_err);
    SIM_CHECK(F.sets_err == extra_sets, "future:late-set", "%d late sets failed, expected %d", F.sets_err, extra_sets);
    SIM_CHECK(F.waits_ret == nwait, "future:lost-waiter", "%d of %d waiters returned", F.waits_ret, nwait);
    if (F.with_cb && F.k > 0) {
        SIM_CHECK(F.cb_calls == 1, "future:callback-count", "callback ran %d times", F.cb_calls);
        SIM_CHECK(F.cb_bad == 0, "future:callback-args", F.cb_bad == 2 ? "a waiter returned before the callback ran" : "callback did not receive every set value exactly once");
    } else
        SIM_CHECK(F.cb_calls == 0, "future:callback-count", "callback ran %d times for k=%d", F.cb_calls, F.k);
    ABT_bool ready = ABT_FALSE;
    ABT_OK(ABT_future_test(F.fut, &ready));
    SIM_CHECK(ready, "future:not-ready", "future not ready after all compartments were set");
    if (plan_n(3) == 0) {
        /* second use after ABT_future_reset (nobody else uses the future now): not ready until
         * the k-th new set, callback once more, a surplus set fails again */
        ABT_OK(ABT_future_reset(F.fut));
        if (F.k >= 2 && plan_bool()) {
            /* a round that is abandoned half-way: some compartments are set, then the future is
             * reset; nothing of it may survive into the next round */
            int part = 1 + (int)plan_n((uint32_t)F.k - 1);
            for (int i = 0; i < part; i++)
                ABT_OK(ABT_future_set(F.fut, F.vals[7 - (i & 1)]));
            ABT_OK(ABT_future_test(F.fut, &ready));
            SIM_CHECK(!ready, "future:ready-before-sets", "ready after %d of %d sets", part, F.k);
            ABT_OK(ABT_future_reset(F.fut));
            sim_count("c09.future_resets_of_partly_filled", 1);
        }
        int cb_before = F.cb_calls;
        F.waits_ret = 0;
        F.cb_done = 0;
        ABT_OK(ABT_future_test(F.fut, &ready));
        SIM_CHECK(F.k == 0 ? ready : !ready, "future:reset", "after ABT_future_reset a future with %d compartments reports ready=%d", F.k, (int)ready);
        for (int i = 0; i < F.k; i++) {
            ABT_OK(ABT_future_test(F.fut, &ready));
            SIM_CHECK(!ready, "future:ready-before-sets", "second round: ready after %d of %d sets", i, F.k);
            ABT_OK(ABT_future_set(F.fut, F.vals[i]));
        }
        int rc = ABT_future_set(F.fut, F.vals[7]);
        SIM_CHECK(rc == ABT_ERR_FUTURE, "future:late-set", "second round: a surplus ABT_future_set returned %d", rc);
        ABT_OK(ABT_future_wait(F.fut));
        ABT_OK(ABT_future_test(F.fut, &ready));
        SIM_CHECK(ready, "future:not-ready", "second round: future not ready after all compartments were set");
        if (F.with_cb && F.k > 0)
            SIM_CHECK(F.cb_calls == cb_before + 1 && F.cb_bad == 0, "future:callback-count", "second round: callback ran %d times (bad=%d)", F.cb_calls - cb_before, F.cb_bad);
        sim_count("c09.future_reset_rounds", 1);
    }
    ABT_OK(ABT_future_free(&F.fut));
    wl_rt_stop(rt);
}
SIM_WORKLOAD("C09", "future", run_c09_future, 6)

/* ------------------------------------------------------------------ re-arm: set immediately followed by reset
 * The usual way to re-use an eventual as a recurring event: ABT_eventual_set() wakes everybody
 * who is waiting, ABT_eventual_reset() follows at once, while the woken callers have not
 * necessarily returned (or even run) yet.  Every caller that was waiting at the set must
 * return; a caller that arrives between set and reset returns at once; one that arrives after
 * the reset waits for the next set.  The setter keeps going as long as somebody waits, so a
 * waiter that never returns was lost by the library. */
static struct {
    wl_rt rt;
    ABT_eventual ev;
    int nbytes, nA;
    volatile int sets_invoked, resets_done, in_wait, waiters_left;
    long waits_ret, blocked_first;
    wl_actor A[MAXA];
} RA;
#define RA_TAG 0xea0000ULL

static void ra_waiter(wl_actor *a)
{
    for (int i = 0; i < a->nops; i++) {
        a->cur_op = i;
        for (int k = 0; k < (a->args[i] & 3); k++)
            wl_actor_pause(a, 1);
        int inv0 = RA.sets_invoked, res0 = RA.resets_done;
        void *buf = (void *)1;
        RA.in_wait++;
        ABT_OK(ABT_eventual_wait(RA.ev, RA.nbytes ? &buf : NULL));
        RA.in_wait--;
        /* every set invoked so far had been followed by a completed reset: the eventual was not
         * ready, and only a new set can have released this wait */
        if (inv0 == res0) {
            RA.blocked_first++;
            SIM_CHECK(RA.sets_invoked > inv0, "eventual:wait-before-set", "re-arm: ABT_eventual_wait of actor %d returned although no ABT_eventual_set was invoked after the last reset (sets %d, resets %d)",
                      a->id, RA.sets_invoked, RA.resets_done);
        }
        if (RA.nbytes) {
            SIM_CHECK(buf != NULL && buf != (void *)1, "eventual:value", "re-arm: ABT_eventual_wait returned no buffer");
            uint64_t v = *(volatile uint64_t *)buf;
            /* the value of the set that released the wait, or of a later one */
            SIM_CHECK((v >> 16) == RA_TAG && (int)(v & 0xffff) > res0 && (int)(v & 0xffff) <= RA.sets_invoked, "eventual:value",
                      "re-arm: actor %d read %#lx after its wait; expected the value of a set number in (%d, %d]", a->id, (unsigned long)v, res0, RA.sets_invoked);
        }
        RA.waits_ret++;
        sim_progress();
        /* let the reset that belongs to the releasing set happen before waiting again */
        int s = RA.sets_invoked;
        while (RA.resets_done < s)
            wl_actor_pause(a, 1);
    }
    RA.waiters_left--;
}
static void ra_setter(wl_actor *a)
{
    while (RA.waiters_left > 0) {
        if (RA.in_wait == 0) {
            wl_actor_pause(a, 1);
            continue;
        }
        for (int k = 0; k < (a->args[0] & 7); k++)
            wl_actor_pause(a, 1);
        uint64_t v = (RA_TAG << 16) | (uint64_t)(RA.sets_invoked + 1);
        RA.sets_invoked++;
        ABT_OK(ABT_eventual_set(RA.ev, RA.nbytes ? &v : NULL, RA.nbytes));
        if (a->args[1] & 1)
            wl_actor_pause(a, 0);
        ABT_OK(ABT_eventual_reset(RA.ev));
        RA.resets_done++;
        wl_actor_pause(a, 1); /* a ULT setter shares its stream with the waiters it has just released */
    }
}
static void ra_diag(char *buf, int sz)
{
    int k = snprintf(buf, (size_t)sz, "re-arm: sets=%d resets=%d in_wait=%d waiters_left=%d waits_ret=%ld ", RA.sets_invoked, RA.resets_done, RA.in_wait, RA.waiters_left, RA.waits_ret);
    wl_actors_diag(RA.A, RA.nA, buf + k, sz - k);
}
static void run_c09_rearm(void)
{
    memset(&RA, 0, sizeof RA);
    sim_set_diag_cb(ra_diag);
    wl_rt *rt = &RA.rt;
    wl_rt_start(rt, WL_RT_NO_TOPO2);
    RA.nbytes = plan_n(4) ? 8 : 0;
    ABT_OK(ABT_eventual_create(RA.nbytes, &RA.ev));
    int n = plan_range(2, sim_limit("actors", 6));
    RA.nA = n;
    int ext_bias = (int)plan_n(3); /* 0: mostly ULTs, 2: mostly external threads */
    sim_note("C09 eventual re-arm nbytes=%d: ", RA.nbytes);
    for (int i = 0; i < n; i++) {
        wl_actor *a = &RA.A[i];
        a->id = i;
        a->kind = (int)plan_n(4) <= ext_bias ? AK_EXT : AK_ULT;
        a->pool = (int)plan_n((uint32_t)rt->npools);
        a->body = i == 0 ? ra_setter : ra_waiter;
        a->nops = i == 0 ? 1 : plan_range(1, sim_limit("ops", 3));
        for (int j = 0; j < a->nops; j++)
            a->args[j] = (int)plan_n(8);
        a->args[1] = (int)plan_n(8);
        sim_note("%s@%d:%s%d ", wl_actor_kind_names[a->kind], a->pool, i == 0 ? "setter" : "waits", i == 0 ? 0 : a->nops);
    }
    RA.waiters_left = n - 1;
    wl_actors_spawn(rt, RA.A, n);
    wl_actors_join(rt, RA.A, n);
    sim_count("c09.rearm_sets", (uint64_t)RA.sets_invoked);
    sim_count("c09.rearm_waits_released_by_a_later_set", (uint64_t)RA.blocked_first);
    ABT_OK(ABT_eventual_free(&RA.ev));
    wl_rt_stop(rt);
}
SIM_WORKLOAD("C09", "eventual-rearm", run_c09_rearm, 6)

/* ------------------------------------------------------------------ hand-off: the waiter owns the object
 * A one-shot eventual or future is created by the caller that waits for it and freed by that
 * caller as soon as its wait has returned; the setter does not touch the object after its set
 * call.  At that moment the setter may still be inside ABT_eventual_set / ABT_future_set
 * (it has released the waiter, but not yet finished with the object): the free must wait for
 * it.  Nothing of an old object may be written after its memory was released (the allocation
 * ledger's poison shows it), and each new object works. */
static struct {
    wl_rt rt;
    int rounds, is_future, k;
    volatile ABT_eventual ev;
    volatile ABT_future fut;
    volatile int published, consumed;
    wl_actor A[2];
} HO;
static void ho_waiter(wl_actor *a)
{
    for (int r = 0; r < HO.rounds; r++) {
        a->cur_op = r;
        if (HO.is_future) {
            ABT_future f;
            ABT_OK(ABT_future_create((uint32_t)HO.k, NULL, &f));
            HO.fut = f;
            HO.published = r + 1;
            ABT_OK(ABT_future_wait(f));
            ABT_OK(ABT_future_free(&f));
        } else {
            ABT_eventual e;
            ABT_OK(ABT_eventual_create(8, &e));
            HO.ev = e;
            HO.published = r + 1;
            void *buf = NULL;
            ABT_OK(ABT_eventual_wait(e, &buf));
            SIM_CHECK(buf && *(volatile uint64_t *)buf == 0x40ULL + (uint64_t)r, "eventual:value", "hand-off round %d: the waiter read %#lx", r, buf ? (unsigned long)*(uint64_t *)buf : 0UL);
            ABT_OK(ABT_eventual_free(&e));
        }
        HO.consumed = r + 1;
        sim_progress();
        for (int k = 0; k < (a->args[0] & 3); k++)
            wl_actor_pause(a, 1);
    }
}
static void ho_setter(wl_actor *a)
{
    for (int r = 0; r < HO.rounds; r++) {
        a->cur_op = r;
        while (HO.published < r + 1)
            wl_actor_pause(a, 1);
        for (int k = 0; k < (a->args[0] & 7); k++)
            wl_actor_pause(a, 1);
        if (HO.is_future) {
            ABT_future f = HO.fut;
            for (int i = 0; i < HO.k; i++)
                ABT_OK(ABT_future_set(f, (void *)(long)(i + 1)));
        } else {
            uint64_t v = 0x40ULL + (uint64_t)r;
            ABT_OK(ABT_eventual_set(HO.ev, &v, 8));
        }
        sim_progress();
    }
}
static void ho_diag(char *buf, int sz)
{
    int k = snprintf(buf, (size_t)sz, "hand-off %s rounds=%d published=%d consumed=%d ", HO.is_future ? "future" : "eventual", HO.rounds, HO.published, HO.consumed);
    wl_actors_diag(HO.A, 2, buf + k, sz - k);
}
static void run_c09_handoff(void)
{
    memset(&HO, 0, sizeof HO);
    sim_set_diag_cb(ho_diag);
    wl_rt *rt = &HO.rt;
    wl_rt_start(rt, WL_RT_NO_TOPO2);
    HO.is_future = plan_bool();
    HO.k = plan_range(1, 3);
    HO.rounds = plan_range(1, sim_limit("rounds", 4));
    sim_note("C09 hand-off %s k=%d rounds=%d: ", HO.is_future ? "future" : "eventual", HO.k, HO.rounds);
    for (int i = 0; i < 2; i++) {
        wl_actor *a = &HO.A[i];
        a->id = i;
        a->kind = plan_n(3) == 0 ? AK_EXT : AK_ULT;
        a->pool = (int)plan_n((uint32_t)rt->npools);
        a->body = i == 0 ? ho_waiter : ho_setter;
        a->args[0] = (int)plan_n(8);
        sim_note("%s:%s@%d ", i == 0 ? "waiter" : "setter", wl_actor_kind_names[a->kind], a->pool);
    }
    wl_actors_spawn(rt, HO.A, 2);
    wl_actors_join(rt, HO.A, 2);
    sim_count("c09.objects_freed_by_their_waiter", (uint64_t)HO.rounds);
    wl_rt_stop(rt);
}
SIM_WORKLOAD("C09", "waiter-frees", run_c09_handoff, 4)

/* ---- scenario "many-compartments": a future with K compartments filled by one setter, one value
 * after the other; a waiter and a tester look on.  Nobody sees it ready before the K-th set; the
 * callback receives the K values in the order of the sets; a (K+1)-th set fails.  K is mostly
 * small; now and then it sits on 2^8 / 2^16 or just around it. ---- */
static struct {
    wl_rt rt;
    ABT_future fut;
    long k;
    volatile long sets_done;
    volatile int cb_calls, cb_bad, waiter_done;
    wl_actor A[3];
} MC;
static void mc_cb(void **args)
{
    MC.cb_calls++;
    for (long i = 0; i < MC.k; i++)
        if (args[i] != (void *)(uintptr_t)(i + 1))
            MC.cb_bad = 1;
    if (MC.sets_done != MC.k - 1) /* (the K-th set is in progress) */
        MC.cb_bad = 2;
}
static void mc_setter(wl_actor *a)
{
    for (long i = 0; i < MC.k; i++) {
        int rc = ABT_future_set(MC.fut, (void *)(uintptr_t)(i + 1));
        SIM_CHECK(rc == ABT_SUCCESS, "future:set-count", "set #%ld of %ld returned %d", i + 1, MC.k, rc);
        MC.sets_done = i + 1;
        if ((i & 255) == 0)
            sim_progress();
        if ((a->args[0] & 1) && i < 8)
            wl_actor_pause(a, 1);
    }
    int rc = ABT_future_set(MC.fut, (void *)(uintptr_t)0x99);
    SIM_CHECK(rc == ABT_ERR_FUTURE, "future:set-count", "set #%ld of a future with %ld compartments returned %d, documented: ABT_ERR_FUTURE (%d)", MC.k + 1, MC.k, rc, ABT_ERR_FUTURE);
    sim_progress();
}
static void mc_waiter(wl_actor *a)
{
    (void)a;
    ABT_OK(ABT_future_wait(MC.fut));
    SIM_CHECK(MC.sets_done >= MC.k - 1 && MC.cb_calls == 1, "future:wait-before-ready", "ABT_future_wait returned after %ld of %ld sets (callback ran %d times)", MC.sets_done, MC.k,
              MC.cb_calls);
    MC.waiter_done = 1;
    sim_progress();
}
static void mc_tester(wl_actor *a)
{
    while (!MC.waiter_done) {
        ABT_bool ready = ABT_FALSE;
        long before = MC.sets_done;
        ABT_OK(ABT_future_test(MC.fut, &ready));
        if (ready)
            SIM_CHECK(MC.sets_done >= MC.k - 1 && MC.cb_calls == 1, "future:ready-before-sets", "ABT_future_test reported ready after %ld of %ld sets", MC.sets_done, MC.k);
        (void)before;
        wl_actor_pause(a, 1);
        sim_progress();
    }
}
static void mc_diag(char *buf, int sz)
{
    int k = snprintf(buf, (size_t)sz, "many-compartments k=%ld sets=%ld cb=%d ", MC.k, MC.sets_done, MC.cb_calls);
    wl_actors_diag(MC.A, 3, buf + k, sz - k);
}
static void run_c09_many(void)
{
    memset(&MC, 0, sizeof MC);
    sim_set_diag_cb(mc_diag);
    wl_rt *rt = &MC.rt;
    wl_rt_start(rt, WL_RT_NO_TOPO2);
    static const long edges[] = { 255, 256, 257, 65535, 65536, 65537, 70000 };
    int deep = plan_n(sim_tier() ? 150 : !strcmp(sim_variant(), "VP") ? 6000 : 700) == 0;
    MC.k = deep ? edges[plan_n(7)] : plan_range(1, 40);
    ABT_OK(ABT_future_create((uint32_t)MC.k, mc_cb, &MC.fut));
    sim_note("C09 many-compartments K=%ld: ", MC.k);
    for (int i = 0; i < 3; i++) {
        wl_actor *a = &MC.A[i];
        a->id = i;
        a->kind = plan_n(3) == 0 ? AK_EXT : AK_ULT;
        a->pool = (int)plan_n((uint32_t)rt->npools);
        a->body = i == 0 ? mc_setter : i == 1 ? mc_waiter : mc_tester;
        a->args[0] = (int)plan_n(8);
        sim_note("%s@%d ", wl_actor_kind_names[a->kind], a->pool);
    }
    wl_actors_spawn(rt, MC.A, 3);
    wl_actors_join(rt, MC.A, 3);
    SIM_CHECK(MC.cb_calls == 1 && MC.cb_bad == 0, "future:callback", "the callback of a future with %ld compartments ran %d times%s", MC.k, MC.cb_calls,
              MC.cb_bad == 1 ? " and did not receive the values in the order of the sets" : MC.cb_bad == 2 ? ", not during the last set" : "");
    if (MC.k >= 65536)
        sim_count("c09.runs_with_2^16_compartments", 1);
    sim_count("c09.compartments_of_one_future", (uint64_t)MC.k);
    ABT_OK(ABT_future_free(&MC.fut));
    wl_rt_stop(rt);
}
SIM_WORKLOAD("C09", "many-compartments", run_c09_many, 1)
