/* helpers shared by workloads: environment swarm, runtime topologies, waiting helpers */
#include "wl_common.h"
#include <time.h>

const char *wl_sched_names[] = { "BASIC", "BASIC_WAIT", "PRIO", "RANDWS", "USER" };
static const ABT_sched_predef sched_predefs[] = { ABT_SCHED_BASIC, ABT_SCHED_BASIC_WAIT, ABT_SCHED_PRIO, ABT_SCHED_RANDWS };
const char *wl_pool_names[] = { "FIFO", "FIFO_WAIT", "RANDWS", "USER" };
static const ABT_pool_kind pool_kinds[] = { ABT_POOL_FIFO, ABT_POOL_FIFO_WAIT, ABT_POOL_RANDWS };

static void env_int(const char *name, long v)
{
    char b[32];
    snprintf(b, sizeof b, "%ld", v);
    setenv(name, b, 1);
    sim_note("%s=%ld ", name, v);
}

int wl_debug;
void wl_env_swarm(void)
{
    wl_debug = getenv("WL_DEBUG") != NULL;
    /* Argobots' own tuning knobs, randomised per run (DESIGN 2.7). */
    if (plan_n(4) != 0) {
        static const int freqs[] = { 1, 2, 3, 5, 8, 16, 50, 64 };
        env_int("ABT_SCHED_EVENT_FREQ", freqs[plan_n(8)]);
    }
    if (plan_n(3) == 0) {
        static const int sl[] = { 100, 10000 };
        env_int("ABT_SCHED_SLEEP_NSEC", sl[plan_n(2)]);
    }
    if (plan_n(2) == 0) /* (now and then a table whose size needs more than 16 bits) */
        env_int("ABT_KEY_TABLE_SIZE", plan_n(40) == 0 ? (65536L << plan_n(2)) : (1L << plan_n(7)));
    /* small buckets most of the time: bucket hand-over between local and global memory pools
     * then happens after a handful of operations (the default 512-stack buckets would also
     * make ABT_init touch megabytes in every run) */
    if (plan_n(8) != 0)
        env_int("ABT_MEM_MAX_NUM_STACKS", 2 + 2 * (long)plan_n(16));
    if (plan_n(8) != 0)
        env_int("ABT_MEM_MAX_NUM_DESCS", 2 + 2 * (long)plan_n(16));
    if (plan_n(4) == 0) {
        static const char *lp[] = { "malloc", "mmap_rp", "mmap_hp_rp", "mmap_hp_thp", "thp" };
        const char *v = lp[plan_n(5)];
        setenv("ABT_MEM_LP_ALLOC", v, 1);
        sim_note("ABT_MEM_LP_ALLOC=%s ", v);
    }
    if (plan_n(4) == 0) {
        static const char *sc[] = { "none", "mprotect", "mprotect_strict" };
        const char *v = sc[plan_n(3)];
        setenv("ABT_STACK_OVERFLOW_CHECK", v, 1);
        sim_note("ABT_STACK_OVERFLOW_CHECK=%s ", v);
    }
    if (plan_n(4) == 0)
        env_int("ABT_MUTEX_MAX_HANDOVERS", 1 + (long)plan_n(4));
    if (plan_n(4) == 0)
        env_int("ABT_MUTEX_MAX_WAKEUPS", 1 + (long)plan_n(3));
    if (plan_n(6) == 0) {
        static const long pg[] = { 4096, 65536, 2097152 };
        env_int("ABT_MEM_PAGE_SIZE", pg[plan_n(3)]);
    }
    /* a hint only ("the largest rank used"): the runtime raises it when more streams appear,
     * and callers that are not streams (external threads) were never counted by it */
    if (plan_n(6) == 0)
        env_int("ABT_MAX_NUM_XSTREAMS", 1 + (long)plan_n(3));
    /* the default stack size is any number of bytes (the library rounds it as it needs) */
    if (plan_n(10) == 0) {
        static const long ss[] = { 16392, 20008, 33000, 65536 + 24 };
        env_int("ABT_THREAD_STACKSIZE", ss[plan_n(4)]);
    }
}

/* ---- a user-defined FIFO pool (ABT_pool_user_def): the library then keeps the
 * unit <-> work-unit hash map for its units and never touches the built-in queue links ---- */
typedef struct unode {
    ABT_thread th;
    struct unode *next;
    int queued, pool;
} unode;
typedef struct upq {
    ABT_pool pool;
    unode *head, *tail;
    size_t n;
} upq;
static upq UPQ[WL_MAX_POOLS];
static int nupq;
static long up_creates, up_frees;
/* Unit handles come from a static slab, not from malloc: the runtime hashes them, so heap
 * addresses (which move with the size of the process environment) would make a run depend
 * on where it is started from. */
#define UNODE_SLAB 1024
static unode unode_slab[UNODE_SLAB];
static int unode_free_list[UNODE_SLAB], unode_nfree = -1;
static unode *unode_alloc(void)
{
    if (unode_nfree < 0) {
        unode_nfree = 0;
        for (int i = UNODE_SLAB - 1; i >= 0; i--)
            unode_free_list[unode_nfree++] = i;
    }
    if (unode_nfree == 0)
        sim_fail("infra:unode-slab", "more than %d live user-pool units", UNODE_SLAB);
    unode *u = &unode_slab[unode_free_list[--unode_nfree]];
    memset(u, 0, sizeof *u);
    return u;
}
static void unode_release(unode *u)
{
    unode_free_list[unode_nfree++] = (int)(u - unode_slab);
}

static int upq_index(ABT_pool pool)
{
    for (int i = 0; i < nupq; i++)
        if (UPQ[i].pool == pool)
            return i;
    sim_fail("upool:unknown-pool", "a user-pool callback was called with a pool handle that is not a user pool");
    return -1;
}
static ABT_unit up_create_unit(ABT_pool pool, ABT_thread thread)
{
    unode *u = unode_alloc();
    u->th = thread;
    u->pool = upq_index(pool);
    up_creates++;
    return (ABT_unit)u;
}
static void up_free_unit(ABT_pool pool, ABT_unit unit)
{
    unode *u = (unode *)unit;
    SIM_CHECK(u->pool == upq_index(pool), "upool:free-wrong-pool", "free_unit called with a unit of another pool");
    SIM_CHECK(!u->queued, "upool:free-queued-unit", "free_unit called for a unit that is still queued in the pool");
    u->pool = -1;
    up_frees++;
    unode_release(u);
}
static ABT_bool up_is_empty(ABT_pool pool)
{
    return UPQ[upq_index(pool)].n == 0 ? ABT_TRUE : ABT_FALSE;
}
static size_t up_get_size(ABT_pool pool)
{
    return UPQ[upq_index(pool)].n;
}
static ABT_thread up_pop(ABT_pool pool, ABT_pool_context ctx)
{
    (void)ctx;
    upq *q = &UPQ[upq_index(pool)];
    unode *u = q->head;
    if (!u)
        return ABT_THREAD_NULL;
    q->head = u->next;
    if (!q->head)
        q->tail = NULL;
    q->n--;
    u->queued = 0;
    u->next = NULL;
    return u->th;
}
static void up_push(ABT_pool pool, ABT_unit unit, ABT_pool_context ctx)
{
    (void)ctx;
    int pi = upq_index(pool);
    upq *q = &UPQ[pi];
    unode *u = (unode *)unit;
    SIM_CHECK(u->pool == pi, "upool:push-wrong-pool", "a unit created for user pool %d was pushed to user pool %d", u->pool, pi);
    SIM_CHECK(!u->queued, "upool:push-twice", "a unit was pushed while it is already queued");
    u->queued = 1;
    u->next = NULL;
    if (q->tail)
        q->tail->next = u;
    else
        q->head = u;
    q->tail = u;
    q->n++;
}
static long up_many_calls;
static void up_push_many(ABT_pool pool, const ABT_unit *units, size_t n, ABT_pool_context ctx)
{
    up_many_calls++;
    for (size_t i = 0; i < n; i++)
        up_push(pool, units[i], ctx);
}
static void up_pop_many(ABT_pool pool, ABT_thread *threads, size_t max, size_t *num, ABT_pool_context ctx)
{
    size_t k = 0;
    up_many_calls++;
    while (k < max) {
        ABT_thread t = up_pop(pool, ctx);
        if (t == ABT_THREAD_NULL)
            break;
        threads[k++] = t;
    }
    *num = k;
}
static ABT_thread up_pop_wait(ABT_pool pool, double secs, ABT_pool_context ctx)
{
    /* "waits up to secs": returning at once is within the contract, and nothing here may block */
    (void)secs;
    return up_pop(pool, ctx);
}
/* optional init/free callbacks: each runs exactly once per pool; init leaves a token in the pool's
 * user data which every later reader finds unchanged */
static long up_inits, up_pool_frees;
static int up_tokens[WL_MAX_POOLS];
static int up_init(ABT_pool pool, ABT_pool_config cfg)
{
    (void)cfg;
    int k = (int)(up_inits++ % WL_MAX_POOLS);
    up_tokens[k] = 0x5eed + k;
    ABT_OK(ABT_pool_set_data(pool, &up_tokens[k]));
    return ABT_SUCCESS;
}
static void up_free_pool(ABT_pool pool)
{
    void *d = NULL;
    ABT_OK(ABT_pool_get_data(pool, &d));
    SIM_CHECK(d >= (void *)&up_tokens[0] && d < (void *)&up_tokens[WL_MAX_POOLS], "upool:pool-data", "the pool's user data changed between its init and free callbacks");
    SIM_CHECK(UPQ[upq_index(pool)].n == 0, "upool:freed-nonempty", "the free callback of a user pool ran while %zu units are queued in it", UPQ[upq_index(pool)].n);
    up_pool_frees++;
}
static ABT_pool mk_user_pool(void)
{
    ABT_pool_user_def def;
    ABT_pool_config cfg;
    ABT_pool p;
    ABT_bool automatic = ABT_TRUE;
    ABT_OK(ABT_pool_user_def_create(up_create_unit, up_free_unit, up_is_empty, up_pop, up_push, &def));
    ABT_OK(ABT_pool_user_def_set_get_size(def, up_get_size));
    /* optional operations: present in some runs (the runtime falls back to push/pop otherwise) */
    if (plan_bool()) {
        ABT_OK(ABT_pool_user_def_set_push_many(def, up_push_many));
        ABT_OK(ABT_pool_user_def_set_pop_many(def, up_pop_many));
    }
    if (plan_bool())
        ABT_OK(ABT_pool_user_def_set_pop_wait(def, up_pop_wait));
    int with_init = plan_bool();
    if (with_init) {
        ABT_OK(ABT_pool_user_def_set_init(def, up_init));
        ABT_OK(ABT_pool_user_def_set_free(def, up_free_pool));
    }
    long inits0 = up_inits;
    ABT_OK(ABT_pool_config_create(&cfg));
    ABT_OK(ABT_pool_config_set(cfg, ABT_pool_config_automatic.key, ABT_pool_config_automatic.type, &automatic));
    ABT_OK(ABT_pool_create(def, cfg, &p));
    ABT_OK(ABT_pool_config_free(&cfg));
    ABT_OK(ABT_pool_user_def_free(&def));
    SIM_CHECK(up_inits == inits0 + with_init, "upool:init-callback", "ABT_pool_create ran the pool's init callback %ld times", up_inits - inits0);
    {
        ABT_pool_access acc;
        ABT_OK(ABT_pool_get_access(p, &acc));
        SIM_CHECK(acc == ABT_POOL_ACCESS_MPMC, "upool:access", "a user-defined pool reports access type %d", (int)acc);
    }
    SIM_CHECK(nupq < WL_MAX_POOLS, "infra:too-many-user-pools", "user pool table full");
    memset(&UPQ[nupq], 0, sizeof UPQ[0]);
    UPQ[nupq++].pool = p;
    return p;
}
/* ---- the same queue behind the legacy ABT_pool_def interface, which also has the deprecated
 * is_in_pool / remove operations that ABT_thread_yield_to needs.  remove may be told to fail
 * (it returns an error code by design) ---- */
static int lp_fail_remove;
static ABT_unit lp_create(ABT_thread thread)
{
    unode *u = unode_alloc();
    u->th = thread;
    u->pool = -1; /* the legacy callback is not told the pool: learnt at the first push */
    up_creates++;
    return (ABT_unit)u;
}
static void lp_free(ABT_unit *unit)
{
    unode *u = (unode *)*unit;
    SIM_CHECK(!u->queued, "upool:free-queued-unit", "u_free called for a unit that is still queued in the pool");
    up_frees++;
    unode_release(u);
    *unit = ABT_UNIT_NULL;
}
static ABT_bool lp_is_in_pool(ABT_unit unit)
{
    return ((unode *)unit)->queued ? ABT_TRUE : ABT_FALSE;
}
static int lp_init(ABT_pool pool, ABT_pool_config cfg)
{
    (void)pool;
    (void)cfg;
    return ABT_SUCCESS;
}
static void lp_push(ABT_pool pool, ABT_unit unit)
{
    unode *u = (unode *)unit;
    if (u->pool < 0)
        u->pool = upq_index(pool);
    up_push(pool, unit, 0);
}
static ABT_unit lp_pop(ABT_pool pool)
{
    upq *q = &UPQ[upq_index(pool)];
    unode *u = q->head;
    if (!u)
        return ABT_UNIT_NULL;
    (void)up_pop(pool, 0);
    return (ABT_unit)u;
}
static int lp_remove(ABT_pool pool, ABT_unit unit)
{
    upq *q = &UPQ[upq_index(pool)];
    unode *u = (unode *)unit;
    if (!u->queued)
        return ABT_ERR_POOL;
    if (lp_fail_remove && sim_rand_n(SIM_RS_CHAOS, 2) == 0)
        return ABT_ERR_POOL; /* the unit stays where it is */
    unode **pp = &q->head, *prev = NULL;
    while (*pp && *pp != u) {
        prev = *pp;
        pp = &(*pp)->next;
    }
    SIM_CHECK(*pp == u, "upool:remove-unknown-unit", "remove called for a unit that is not in this pool");
    *pp = u->next;
    if (q->tail == u)
        q->tail = prev;
    q->n--;
    u->queued = 0;
    u->next = NULL;
    return ABT_SUCCESS;
}
static long lp_pool_frees;
static int lp_free_pool(ABT_pool pool)
{
    (void)pool;
    lp_pool_frees++;
    return ABT_SUCCESS;
}
static ABT_unit lp_pop_timedwait(ABT_pool pool, double abstime)
{
    (void)abstime; /* "waits until": returning at once is within the contract */
    return lp_pop(pool);
}
ABT_pool wl_make_legacy_pool(int failing_remove)
{
    ABT_pool_def def;
    ABT_pool p;
    memset(&def, 0, sizeof def);
    def.access = ABT_POOL_ACCESS_MPMC;
    def.u_is_in_pool = lp_is_in_pool;
    def.u_create_from_thread = lp_create;
    def.u_free = lp_free;
    def.p_init = lp_init;
    def.p_get_size = up_get_size;
    def.p_push = lp_push;
    def.p_pop = lp_pop;
    def.p_remove = lp_remove;
    def.p_free = lp_free_pool;
    def.p_pop_timedwait = lp_pop_timedwait;
    lp_fail_remove = failing_remove;
    ABT_OK(ABT_pool_create(&def, ABT_POOL_CONFIG_NULL, &p));
    SIM_CHECK(nupq < WL_MAX_POOLS, "infra:too-many-user-pools", "user pool table full");
    memset(&UPQ[nupq], 0, sizeof UPQ[0]);
    UPQ[nupq++].pool = p;
    return p;
}
void wl_user_pools_reset(void)
{
    nupq = 0;
    up_creates = up_frees = 0;
}
void wl_user_pools_check(void)
{
    SIM_CHECK(up_creates == up_frees, "upool:unit-leaked", "user pools: create_unit was called %ld times, free_unit %ld times by the end of ABT_finalize", up_creates, up_frees);
}

int wl_pool_is_user(ABT_pool pool)
{
    for (int i = 0; i < nupq; i++)
        if (UPQ[i].pool == pool)
            return 1;
    return 0;
}

int wl_thread_is_in_pool(ABT_thread th)
{
    /* only for a unit that cannot change its pool meanwhile */
    ABT_pool pool;
    ABT_unit unit;
    ABT_OK(ABT_thread_get_last_pool(th, &pool));
    if (!wl_pool_is_user(pool))
        return wb_thread_is_in_pool(th);
    ABT_OK(ABT_thread_get_unit(th, &unit));
    return ((unode *)unit)->queued;
}

static ABT_pool mkpool(wl_rt *rt, int flags, int es)
{
    int k = (flags & WL_RT_FIFO_ONLY) ? 0 : (int)plan_n(3);
    ABT_pool p;
    if (!(flags & (WL_RT_FIFO_ONLY | WL_RT_BUILTIN_POOLS)) && plan_n(5) == 0) {
        k = 3;
        p = mk_user_pool();
    } else
        ABT_OK(ABT_pool_create_basic(pool_kinds[k], ABT_POOL_ACCESS_MPMC, ABT_TRUE, &p));
    int i = rt->npools++;
    rt->pools[i] = p;
    rt->pool_es[i] = es;
    rt->pool_kind[i] = k;
    return p;
}

/* ---- a user-defined scheduler (ABT_sched_def), written the way the library's examples do:
 * pop a unit, run it with ABT_self_schedule (or the older ABT_xstream_run_unit), every few
 * units ask ABT_sched_has_to_stop and ABT_xstream_check_events.  Pools are served round-robin,
 * so no pool can be starved by a perpetually yielding unit in another one. ---- */
typedef struct usched {
    int n, freq, legacy_run, coop;
    ABT_pool pools[4];
} usched;
static ABT_sched_config_var us_cv_freq = { .idx = 0, .type = ABT_SCHED_CONFIG_INT };
static ABT_sched_config_var us_cv_legacy = { .idx = 1, .type = ABT_SCHED_CONFIG_INT };
/* cooperative: a scheduler that runs as a work unit itself (stacked) yields to its own
 * scheduler whenever its pools are empty, so that the units its blocked units wait for can run */
static ABT_sched_config_var us_cv_coop = { .idx = 2, .type = ABT_SCHED_CONFIG_INT };
static long us_units_run;
static int us_init(ABT_sched sched, ABT_sched_config config)
{
    usched *d = (usched *)calloc(1, sizeof *d);
    d->freq = 1;
    ABT_OK(ABT_sched_config_read(config, 3, &d->freq, &d->legacy_run, &d->coop));
    ABT_OK(ABT_sched_get_num_pools(sched, &d->n));
    SIM_CHECK(d->n >= 1 && d->n <= 4, "infra:usched-pools", "user scheduler with %d pools", d->n);
    ABT_OK(ABT_sched_get_pools(sched, d->n, 0, d->pools));
    ABT_OK(ABT_sched_set_data(sched, d));
    return ABT_SUCCESS;
}
static void us_run(ABT_sched sched)
{
    usched *d;
    ABT_OK(ABT_sched_get_data(sched, (void **)&d));
    int work = 0, first = 0;
    for (;;) {
        int found = 0;
        for (int i = 0; i < d->n && !found; i++) {
            ABT_pool pool = d->pools[(first + i) % d->n];
            if (d->legacy_run) {
                ABT_unit unit;
                ABT_OK(ABT_pool_pop(pool, &unit));
                if (unit != ABT_UNIT_NULL) {
                    found = 1;
                    us_units_run++;
                    ABT_OK(ABT_xstream_run_unit(unit, pool));
                }
            } else {
                ABT_thread th;
                ABT_OK(ABT_pool_pop_thread(pool, &th));
                if (th != ABT_THREAD_NULL) {
                    found = 1;
                    us_units_run++;
                    ABT_OK(ABT_self_schedule(th, ABT_POOL_NULL));
                }
            }
        }
        first++;
        if (!found || ++work >= d->freq) {
            work = 0;
            ABT_bool stop;
            ABT_OK(ABT_sched_has_to_stop(sched, &stop));
            if (stop == ABT_TRUE)
                break;
            ABT_OK(ABT_xstream_check_events(sched));
            if (!found && d->coop)
                ABT_OK(ABT_thread_yield());
        }
    }
}
static int us_free(ABT_sched sched)
{
    usched *d;
    ABT_OK(ABT_sched_get_data(sched, (void **)&d));
    free(d);
    return ABT_SUCCESS;
}
/* optional callback: which pool receives a unit migrated to this scheduler.  It names the first
 * pool, which is also what the runtime picks without the callback, so that workloads need not
 * know whether a scheduler has one. */
static long us_migr_pool_calls;
static ABT_pool us_get_migr_pool(ABT_sched sched)
{
    ABT_pool p = ABT_POOL_NULL;
    ABT_OK(ABT_sched_get_pools(sched, 1, 0, &p));
    us_migr_pool_calls++;
    return p;
}
static int us_next_coop;
ABT_sched wl_make_user_sched_coop(int n, ABT_pool *pools)
{
    us_next_coop = 1;
    ABT_sched s = wl_make_user_sched(n, pools);
    us_next_coop = 0;
    return s;
}
ABT_sched wl_make_user_sched(int n, ABT_pool *pools)
{
    ABT_sched_def def = { .type = ABT_SCHED_TYPE_ULT, .init = us_init, .run = us_run, .free = us_free, .get_migr_pool = plan_bool() ? us_get_migr_pool : NULL };
    ABT_sched_config cfg;
    ABT_sched sched;
    static const int freqs[] = { 1, 2, 5, 16 };
    ABT_OK(ABT_sched_config_create(&cfg, us_cv_freq, freqs[plan_n(4)], us_cv_legacy, (int)plan_n(2), us_cv_coop, us_next_coop, ABT_sched_config_automatic, ABT_TRUE, ABT_sched_config_var_end));
    ABT_OK(ABT_sched_create(&def, n, pools, cfg, &sched));
    ABT_OK(ABT_sched_config_free(&cfg));
    return sched;
}

static int pick_sched(int flags)
{
    if (flags & WL_RT_BASIC_ONLY)
        return 0;
    if (!(flags & WL_RT_PREDEF_SCHEDS) && plan_n(6) == 0)
        return 4;
    int k = (int)plan_n(4);
    if ((flags & WL_RT_NO_WAIT_SCHED) && k == 1)
        k = 0;
    return k;
}

void wl_rt_start(wl_rt *rt, int flags)
{
    memset(rt, 0, sizeof *rt);
    nupq = 0;
    up_creates = up_frees = 0;
    up_inits = up_pool_frees = 0;
    us_units_run = 0;
    us_migr_pool_calls = 0;
    wl_env_swarm();
    ABT_OK(ABT_init(0, NULL));
    if (plan_n(8) == 0) {
        /* initialisation is counted: an inner ABT_init / ABT_finalize pair changes nothing */
        ABT_OK(ABT_init(0, NULL));
        ABT_OK(ABT_finalize());
        SIM_CHECK(ABT_initialized() == ABT_SUCCESS, "init:inner-finalize-tore-down", "ABT_initialized() says no after the inner ABT_finalize of a nested initialisation");
    }
    int maxes = sim_limit("es", 4);
    int lo = (flags & WL_RT_MIN2ES) ? 2 : 1;
    if (maxes < lo)
        maxes = lo;
    rt->nes = plan_range(lo, maxes);
    int nes = rt->nes;
    int topo;
    if (nes == 1 || (flags & WL_RT_PRIVATE_ONLY))
        topo = 0;
    else if (flags & WL_RT_NEED_SHARED)
        topo = (flags & WL_RT_NO_TOPO2) ? 1 : 1 + (int)plan_n(2);
    else
        topo = (int)plan_n((flags & WL_RT_NO_TOPO2) ? 2 : 3);
    rt->topo = topo;
    ABT_OK(ABT_xstream_self(&rt->xs[0]));
    ABT_pool shared = ABT_POOL_NULL;
    int replace0 = topo != 0 || plan_bool();
    if (topo != 0) {
        /* created first so that it is pools[0] */
        shared = mkpool(rt, flags, -1);
    }
    /* ES0: the first pool is always private to ES0 (the primary ULT lives there) */
    if (replace0) {
        ABT_pool ps[2];
        int n = 0;
        ps[n++] = mkpool(rt, flags, 0);
        rt->es_first_pool[0] = rt->npools - 1;
        if (topo != 0)
            ps[n++] = shared;
        rt->sched_kind[0] = pick_sched(flags);
        if (rt->sched_kind[0] == 4)
            ABT_OK(ABT_xstream_set_main_sched(rt->xs[0], wl_make_user_sched(n, ps)));
        else
            ABT_OK(ABT_xstream_set_main_sched_basic(rt->xs[0], sched_predefs[rt->sched_kind[0]], n, ps));
    } else {
        ABT_pool p;
        ABT_OK(ABT_xstream_get_main_pools(rt->xs[0], 1, &p));
        int i = rt->npools++;
        rt->pools[i] = p;
        rt->pool_es[i] = 0;
        rt->pool_kind[i] = 0;
        rt->es_first_pool[0] = i;
        rt->sched_kind[0] = -1;
    }
    for (int e = 1; e < nes; e++) {
        ABT_pool ps[6];
        int n = 0;
        if (topo == 0 && !(flags & WL_RT_FIFO_ONLY) && plan_n(6) == 0) {
            /* the stream's pools are created by the library (no pool list): the kind follows from
             * the scheduler (FIFO_WAIT for BASIC_WAIT, several FIFO pools for PRIO); units go to
             * the first one */
            int sk = pick_sched(flags | WL_RT_PREDEF_SCHEDS);
            rt->sched_kind[e] = sk;
            if (plan_bool())
                ABT_OK(ABT_xstream_create_basic(sched_predefs[sk], 0, NULL, ABT_SCHED_CONFIG_NULL, &rt->xs[e]));
            else {
                ABT_sched sc;
                ABT_OK(ABT_sched_create_basic(sched_predefs[sk], 0, NULL, ABT_SCHED_CONFIG_NULL, &sc));
                ABT_OK(ABT_xstream_create(sc, &rt->xs[e]));
            }
            ABT_pool p;
            ABT_OK(ABT_xstream_get_main_pools(rt->xs[e], 1, &p));
            int i = rt->npools++;
            rt->pools[i] = p;
            rt->pool_es[i] = e;
            rt->pool_kind[i] = sk == 1 ? 1 : 0;
            rt->es_first_pool[e] = i;
            continue;
        }
        if (topo == 0 || topo == 2) {
            ps[n++] = mkpool(rt, flags, e);
            rt->es_first_pool[e] = rt->npools - 1;
        } else
            rt->es_first_pool[e] = 0; /* the shared pool is pools[0] */
        if (topo != 0)
            ps[n++] = shared;
        if (topo == 0 && !(flags & (WL_RT_NO_TOPO2 | WL_RT_PRIVATE_ONLY)) && plan_n(3) == 0) {
            /* a stream with three or four pools of its own: every one of them is served (the
             * work-stealing and priority schedulers treat the first and the last specially) */
            int extra = plan_range(2, 3);
            for (int k = 0; k < extra && rt->npools < WL_MAX_POOLS; k++)
                ps[n++] = mkpool(rt, flags, e);
        }
        rt->sched_kind[e] = pick_sched(flags);
        if (rt->sched_kind[e] == 4)
            ABT_OK(ABT_xstream_create(wl_make_user_sched(n, ps), &rt->xs[e]));
        else if (plan_n(4) == 0) {
            /* the event-check frequency given as a scheduler hint (0 = as often as possible;
             * unlike the environment variable the hint is not clamped) */
            static const int freqs[] = { 0, 0, 1, 2, 7, 64 };
            ABT_sched_config cfg;
            ABT_OK(ABT_sched_config_create(&cfg, ABT_sched_basic_freq, freqs[plan_n(6)], ABT_sched_config_var_end));
            ABT_OK(ABT_xstream_create_basic(sched_predefs[rt->sched_kind[e]], n, ps, cfg, &rt->xs[e]));
            ABT_OK(ABT_sched_config_free(&cfg));
        } else
            ABT_OK(ABT_xstream_create_basic(sched_predefs[rt->sched_kind[e]], n, ps, ABT_SCHED_CONFIG_NULL, &rt->xs[e]));
    }
    sim_note("rt{nes=%d topo=%d scheds=", nes, topo);
    for (int e = 0; e < nes; e++)
        sim_note("%s%s", e ? "," : "", rt->sched_kind[e] < 0 ? "default" : wl_sched_names[rt->sched_kind[e]]);
    sim_note(" pools=");
    for (int i = 0; i < rt->npools; i++)
        sim_note("%s%s@%d", i ? "," : "", wl_pool_names[rt->pool_kind[i]], rt->pool_es[i]);
    sim_note("} ");
    sim_progress();
}

void wl_rt_stop(wl_rt *rt)
{
    for (int e = 1; e < rt->nes; e++) {
        if (!rt->joined[e])
            ABT_OK(ABT_xstream_join(rt->xs[e]));
        sim_progress();
        if (rt->topo == 0) {
            /* a joined stream whose pools nobody else serves has nothing left, queued or blocked */
            ABT_sched sc;
            size_t sz = 99, tot = 99;
            ABT_OK(ABT_xstream_get_main_sched(rt->xs[e], &sc));
            ABT_OK(ABT_sched_get_size(sc, &sz));
            ABT_OK(ABT_sched_get_total_size(sc, &tot));
            SIM_CHECK(sz == 0 && tot == 0, "join:returned-with-work-left", "after ABT_xstream_join of stream %d its scheduler reports size %zu and total size %zu", e, sz, tot);
        }
        ABT_OK(ABT_xstream_free(&rt->xs[e]));
        sim_progress();
    }
    ABT_OK(ABT_finalize());
    sim_progress();
    sim_ledger_check_empty("after ABT_finalize");
    SIM_CHECK(up_creates == up_frees, "upool:unit-leaked", "user pools: create_unit was called %ld times, free_unit %ld times by the end of ABT_finalize", up_creates, up_frees);
    SIM_CHECK(up_inits == up_pool_frees, "upool:free-callback", "user pools: the init callback ran %ld times, the free callback %ld times by the end of ABT_finalize", up_inits, up_pool_frees);
    if (nupq)
        sim_count("rt.user_pool_units", (uint64_t)up_creates);
    if (us_units_run)
        sim_count("rt.user_sched_units_run", (uint64_t)us_units_run);
    if (us_migr_pool_calls)
        sim_count("rt.user_sched_get_migr_pool_calls", (uint64_t)us_migr_pool_calls);
}

ABT_pool wl_any_pool(wl_rt *rt)
{
    return rt->pools[plan_n((uint32_t)rt->npools)];
}

void wl_spin_until(volatile int *flag)
{
    while (!*flag)
        sim_yield();
}

void wl_ult_wait(volatile int *flag)
{
    while (!*flag)
        ABT_OK(ABT_thread_yield());
}

struct timespec wl_abstime(uint64_t ns_from_now)
{
    uint64_t t = sim_now_ns() + ns_from_now;
    struct timespec ts;
    ts.tv_sec = (time_t)(t / 1000000000ULL);
    ts.tv_nsec = (long)(t % 1000000000ULL);
    return ts;
}

/* ------------------------------------------------------------------ actors */
const char *wl_actor_kind_names[] = { "ult", "tasklet", "ext" };

static void actor_entry(void *arg)
{
    wl_actor *a = (wl_actor *)arg;
    a->body(a);
    a->done = 1;
    sim_progress();
}

void wl_actor_pause(wl_actor *a, int ult_yield)
{
    if (a->kind == AK_ULT && ult_yield)
        ABT_OK(ABT_thread_yield());
    else
        sim_yield();
}

void wl_actors_spawn(wl_rt *rt, wl_actor *a, int n)
{
    for (int i = 0; i < n; i++) {
        a[i].done = 0;
        a[i].th = ABT_THREAD_NULL;
        a[i].simtid = -1;
        if (a[i].kind == AK_ULT)
            ABT_OK(ABT_thread_create(rt->pools[a[i].pool], actor_entry, &a[i], ABT_THREAD_ATTR_NULL, &a[i].th));
        else if (a[i].kind == AK_TASKLET)
            ABT_OK(ABT_task_create(rt->pools[a[i].pool], actor_entry, &a[i], &a[i].th));
        else
            a[i].simtid = sim_thread_create(actor_entry, &a[i]);
    }
}

void wl_actors_join(wl_rt *rt, wl_actor *a, int n)
{
    (void)rt;
    for (int i = 0; i < n; i++) {
        if (a[i].kind == AK_EXT) {
            /* never block the calling stream's OS thread: units in its pools may be
             * needed by the external thread */
            while (!a[i].done)
                ABT_OK(ABT_thread_yield());
            sim_thread_join(a[i].simtid);
        }
        else
            ABT_OK(ABT_thread_free(&a[i].th));
        SIM_CHECK(a[i].done || a[i].cancelled_ok, "actor-incomplete", "actor %d (%s) joined but its body did not finish", i, wl_actor_kind_names[a[i].kind]);
        sim_progress();
    }
}

int wl_actors_diag(wl_actor *a, int n, char *buf, int sz)
{
    int k = 0;
    for (int i = 0; i < n && k < sz - 40; i++) {
        ABT_thread_state st = (ABT_thread_state)-1;
        if (a[i].th != ABT_THREAD_NULL && !a[i].done)
            ABT_thread_get_state(a[i].th, &st);
        k += snprintf(buf + k, (size_t)(sz - k), "a%d:%s:op%d/%d:%s:st%d ", i, wl_actor_kind_names[a[i].kind], a[i].cur_op, a[i].nops, a[i].done ? "done" : "live", (int)st);
    }
    return k;
}
