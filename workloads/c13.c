/* C13: migration moves a unit to the requested pool exactly once, with its callback */
#include "wl_common.h"
#include "whitebox.h"

#define MAXU 5
#define MAXREQ 24
typedef struct mreq {
    uint64_t inv, ret;
    int pool, consumed;
} mreq;

#define NKEYS 8
typedef struct mu {
    int id, pool0, nslices, self_requests, use_suspend, with_cb;
    ABT_thread th;
    mreq R[MAXREQ];
    volatile int nreq;
    volatile int cur_pool;     /* index of the pool the unit was last seen in */
    volatile int starts, done, cb_calls, moves, accepted;
    volatile int susp_epoch, res_epoch;
    volatile int cb_bad;
    volatile int inflight_pool; /* target of a request call that has not returned yet, or -1 */
    volatile int cb_last_pool;  /* pool the unit was associated with at the previous callback */
    int issuer;
} mu;

static struct {
    wl_rt rt;
    mu U[MAXU];
    int n, nissuers;
    volatile int units_done, go;
    long lost_checks, concurrent_reqs;
    long via_xstream, via_sched;
    /* work-unit-local storage of the migrating units: the library keeps a unit's migration
     * target and callback in the same per-unit table as the unit's own keys */
    ABT_key keys[NKEYS];
    long key_values_checked;
} S;

static int pool_index(ABT_pool p)
{
    for (int i = 0; i < S.rt.npools; i++)
        if (S.rt.pools[i] == p)
            return i;
    return -1;
}

static void mig_cb(ABT_thread th, void *arg)
{
    mu *u = (mu *)arg;
    if (th != u->th)
        u->cb_bad = 1;
    u->cb_calls++;
    /* exactly once per *performed* migration: every invocation must find the unit associated
     * with another pool than at the previous invocation */
    ABT_pool lp;
    if (ABT_thread_get_last_pool(th, &lp) == ABT_SUCCESS) {
        int idx = pool_index(lp);
        if (idx == u->cb_last_pool)
            u->cb_bad = 2;
        u->cb_last_pool = idx;
    }
}

static void request(mu *u, int pool, int who)
{
    (void)who;
    if (u->nreq >= MAXREQ)
        return;
    uint64_t inv = sim_steps();
    u->inflight_pool = pool;
    /* the same request can be expressed through a stream or its main scheduler when the pool
     * is that scheduler's first pool (the default migration pool) */
    int via = 0, es = -1;
    for (int e = 0; e < S.rt.nes; e++)
        if (S.rt.es_first_pool[e] == pool && sim_rand_n(SIM_RS_CHAOS, 3) == 0) {
            es = e;
            via = 1 + (int)sim_rand_n(SIM_RS_CHAOS, 2);
            break;
        }
    int rc;
    if (via == 1) {
        rc = ABT_thread_migrate_to_xstream(u->th, S.rt.xs[es]);
        S.via_xstream++;
    } else if (via == 2) {
        ABT_sched sc;
        ABT_OK(ABT_xstream_get_main_sched(S.rt.xs[es], &sc));
        rc = ABT_thread_migrate_to_sched(u->th, sc);
        S.via_sched++;
    } else
        rc = ABT_thread_migrate_to_pool(u->th, S.rt.pools[pool]);
    u->inflight_pool = -1;
    if (rc == ABT_SUCCESS) {
        mreq *r = &u->R[u->nreq];
        r->inv = inv;
        r->ret = sim_steps();
        r->pool = pool;
        r->consumed = 0;
        u->nreq++; /* published last: the checker only looks at complete records */
        u->accepted++;
    } else
        SIM_CHECK(rc == ABT_ERR_MIGRATION_TARGET, "migrate:error-code", "%s returned %d", via == 1 ? "ABT_thread_migrate_to_xstream" : via == 2 ? "ABT_thread_migrate_to_sched" : "ABT_thread_migrate_to_pool", rc);
    sim_progress();
}

/* called by the unit when it gets control back from a scheduling point invoked at y_inv */
static void slice_check(mu *u, uint64_t y_inv)
{
    ABT_pool lp;
    ABT_OK(ABT_self_get_last_pool(&lp));
    int seen = pool_index(lp);
    SIM_CHECK(seen >= 0, "migrate:unknown-pool", "unit %d runs in a pool that was never requested", u->id);
    /* last accepted request that had completed before the scheduling point was invoked */
    int fin = -1;
    int nr = u->nreq;
    for (int i = 0; i < nr; i++)
        if (!u->R[i].consumed && u->R[i].ret < y_inv)
            fin = i;
    /* requests overlapping the scheduling point (or stored after the request word was
     * sampled): may or may not have been honoured yet */
    int conc_ok = 0;
    for (int i = 0; i < nr; i++)
        if (!u->R[i].consumed && u->R[i].ret >= y_inv && u->R[i].pool == seen) {
            conc_ok = 1;
            /* honoured: everything up to it is history */
            for (int j = 0; j <= i; j++)
                u->R[j].consumed = 1;
            S.concurrent_reqs++;
            break;
        }
    /* (a request call in flight that names the pool the unit is seen in explains the move only if
     * nothing completed does: when the last completed request names that pool too, the move is
     * that request's, the call in flight may yet be refused -- the unit is there already --, and
     * the requests accepted in between are still owed) */
    if (!conc_ok && u->inflight_pool == seen && !(fin >= 0 && u->R[fin].pool == seen)) {
        if (seen == u->cur_pool) {
            /* A request call in flight names the pool the unit was in all along.  Either it is
             * going to be rejected (and overrides nothing), or it was validated long ago while
             * the unit was elsewhere and has stored its target by now (and overrides every
             * earlier request, whose handling then finds the unit at the target already).
             * Which of the two is only known when the call returns: nothing can be concluded
             * from this slice, and nothing is forgotten. */
            return;
        }
        /* it has already stored its target: it overrides every earlier request */
        conc_ok = 1;
        for (int j = 0; j < nr; j++)
            u->R[j].consumed = 1;
    }
    if (!conc_ok) {
        if (fin >= 0) {
            S.lost_checks++;
            if (seen != u->R[fin].pool) {
                char hb[400];
                int k = 0;
                for (int i = 0; i < nr && k < 360; i++)
                    k += snprintf(hb + k, sizeof hb - (size_t)k, "[%lu,%lu]->%d%s ", (unsigned long)u->R[i].inv, (unsigned long)u->R[i].ret, u->R[i].pool, u->R[i].consumed ? "c" : "");
                sim_fail("migrate:request-not-honoured",
                         "unit %d: ABT_thread_migrate_to_pool(pool %d) returned at step %lu, the unit's next scheduling point was invoked at step %lu, but its next slice runs in pool %d (previous slice: pool %d, request in flight: %d; accepted requests: %s)",
                         u->id, u->R[fin].pool, (unsigned long)u->R[fin].ret, (unsigned long)y_inv, seen, u->cur_pool, u->inflight_pool, hb);
            }
            for (int j = 0; j <= fin; j++)
                u->R[j].consumed = 1;
        } else
            SIM_CHECK(seen == u->cur_pool, "migrate:moved-without-request", "unit %d moved from pool %d to pool %d without a pending request", u->id, u->cur_pool, seen);
    }
    if (seen != u->cur_pool)
        u->moves++;
    u->cur_pool = seen;
}

static void unit_fn(void *arg)
{
    mu *u = (mu *)arg;
    u->starts++;
    SIM_CHECK(u->starts == 1, "once:started-twice", "unit %d started twice", u->id);
    /* first slice: the scheduling point was the pop that started the unit, at an unknown
     * earlier step: nothing is owed yet (a request already honoured is recognised, the others
     * stay pending for the next scheduling point) */
    while (!S.go)
        ABT_OK(ABT_thread_yield());
    slice_check(u, 0);
    for (int s = 0; s < u->nslices; s++) {
        /* (the first set of a key appends to the table while requests and callbacks of issuers on
         * other streams may be creating the unit's migration record in it) */
        ABT_OK(ABT_key_set(S.keys[s % NKEYS], (void *)(uintptr_t)(0x5000 + u->id * 16 + s % NKEYS)));
        if (u->self_requests && sim_rand_n(SIM_RS_CHAOS, 2)) {
            int p = (int)sim_rand_n(SIM_RS_CHAOS, (uint32_t)S.rt.npools);
            request(u, p, -1);
        }
        uint64_t y_inv = sim_steps();
        if (u->use_suspend && (s & 1)) {
            u->susp_epoch++;
            ABT_OK(ABT_self_suspend());
            SIM_CHECK(u->res_epoch == u->susp_epoch, "suspend:ran-without-resume", "unit %d ran without resume", u->id);
        } else
            ABT_OK(ABT_thread_yield());
        slice_check(u, y_inv);
        sim_progress();
    }
    for (int k = 0; k < NKEYS && k < u->nslices; k++) {
        void *got = NULL;
        ABT_OK(ABT_key_get(S.keys[k], &got));
        SIM_CHECK(got == (void *)(uintptr_t)(0x5000 + u->id * 16 + k), "key:wrong-value", "unit %d: the value it stored under key %d reads %p at its end", u->id, k, got);
        S.key_values_checked++;
    }
    u->done = 1;
    S.units_done++;
    sim_progress();
}

/* issuer: requests migrations of its units at arbitrary instants and resumes suspended ones */
static void issuer_loop(int me, int is_ult)
{
    while (!S.go) {
        if (is_ult)
            ABT_OK(ABT_thread_yield());
        else
            sim_yield();
    }
    while (S.units_done < S.n) {
        for (int i = 0; i < S.n; i++) {
            mu *u = &S.U[i];
            if (u->issuer != me || u->done)
                continue;
            if (u->res_epoch < u->susp_epoch) {
                ABT_thread_state st;
                ABT_OK(ABT_thread_get_state(u->th, &st));
                if (st == ABT_THREAD_STATE_BLOCKED && u->res_epoch < u->susp_epoch) {
                    u->res_epoch++;
                    ABT_OK(ABT_thread_resume(u->th));
                    sim_progress();
                }
            }
            if (!u->self_requests && sim_rand_n(SIM_RS_CHAOS, 3) == 0)
                request(u, (int)sim_rand_n(SIM_RS_CHAOS, (uint32_t)S.rt.npools), me);
        }
        if (is_ult)
            ABT_OK(ABT_thread_yield());
        else
            sim_yield();
    }
}
static void issuer_ult(void *arg)
{
    issuer_loop((int)(long)arg, 1);
}
static void issuer_ext(void *arg)
{
    issuer_loop((int)(long)arg, 0);
}

static void diag(char *buf, int sz)
{
    int k = snprintf(buf, (size_t)sz, "done=%d/%d ", S.units_done, S.n);
    for (int i = 0; i < S.n && k < sz - 50; i++)
        k += snprintf(buf + k, (size_t)(sz - k), "u%d:pool%d/req%d/acc%d/cb%d/mv%d/susp%d-%d/d%d ", i, S.U[i].cur_pool, S.U[i].nreq, S.U[i].accepted, S.U[i].cb_calls, S.U[i].moves,
                      S.U[i].susp_epoch, S.U[i].res_epoch, S.U[i].done);
}

static void run_c13(void)
{
    memset(&S, 0, sizeof S);
    sim_set_diag_cb(diag);
    wl_rt *rt = &S.rt;
    wl_rt_start(rt, WL_RT_NO_TOPO2);
    for (int k = 0; k < NKEYS; k++)
        ABT_OK(ABT_key_create(NULL, &S.keys[k]));
    int n = plan_range(1, sim_limit("units", 4));
    S.n = n;
    S.nissuers = plan_range(1, 2);
    int issuer_kind[2] = { (int)plan_n(2), (int)plan_n(2) };
    sim_note("C13 units=%d issuers=%d(%s,%s): ", n, S.nissuers, issuer_kind[0] ? "ext" : "ult", issuer_kind[1] ? "ext" : "ult");
    for (int i = 0; i < n; i++) {
        mu *u = &S.U[i];
        u->id = i;
        u->pool0 = (int)plan_n((uint32_t)rt->npools);
        u->cur_pool = u->pool0;
        u->inflight_pool = -1;
        u->cb_last_pool = u->pool0;
        u->nslices = plan_range(1, sim_limit("slices", 8));
        u->self_requests = plan_n(3) == 0;
        u->use_suspend = plan_n(3) == 0;
        u->with_cb = plan_bool();
        u->issuer = (int)plan_n((uint32_t)S.nissuers);
        ABT_OK(ABT_thread_create(rt->pools[u->pool0], unit_fn, u, ABT_THREAD_ATTR_NULL, &u->th));
        if (u->with_cb)
            ABT_OK(ABT_thread_set_callback(u->th, mig_cb, u));
        sim_note("u%d@%d*%d%s%s%s ", i, u->pool0, u->nslices, u->self_requests ? "/self" : "", u->use_suspend ? "/susp" : "", u->with_cb ? "/cb" : "");
    }
    /* error codes at a quiet moment: a non-migratable unit and the main scheduler's ULT */
    {
        mu *u = &S.U[0];
        ABT_bool flag = ABT_FALSE;
        ABT_OK(ABT_thread_is_migratable(u->th, &flag));
        SIM_CHECK(flag == ABT_TRUE, "migrate:default-migratable", "a new ULT is not migratable");
    }
    ABT_thread ith[2];
    int itid[2];
    for (int k = 0; k < S.nissuers; k++) {
        if (issuer_kind[k])
            itid[k] = sim_thread_create(issuer_ext, (void *)(long)k);
        else
            ABT_OK(ABT_thread_create(rt->pools[plan_n((uint32_t)rt->npools)], issuer_ult, (void *)(long)k, ABT_THREAD_ATTR_NULL, &ith[k]));
    }
    S.go = 1; /* callbacks are registered: requests may flow */
    while (S.units_done < n)
        ABT_OK(ABT_thread_yield());
    for (int k = 0; k < S.nissuers; k++) {
        if (issuer_kind[k])
            sim_thread_join(itid[k]);
        else
            ABT_OK(ABT_thread_free(&ith[k]));
    }
    for (int i = 0; i < n; i++) {
        mu *u = &S.U[i];
        ABT_OK(ABT_thread_free(&u->th));
        SIM_CHECK(u->done && u->starts == 1, "once:not-exactly-once", "unit %d: starts=%d done=%d", i, u->starts, u->done);
        if (u->with_cb) {
            SIM_CHECK(u->cb_bad != 1, "migrate:callback-args", "migration callback of unit %d received a wrong handle", i);
            SIM_CHECK(u->cb_bad != 2, "migrate:callback-without-migration", "migration callback of unit %d ran although the unit's pool had not changed since the previous callback", i);
            SIM_CHECK(u->cb_calls >= u->moves && u->cb_calls <= u->accepted, "migrate:callback-count",
                      "unit %d: callback ran %d times for %d observed pool changes and %d accepted requests", i, u->cb_calls, u->moves, u->accepted);
        }
        sim_progress();
    }
    for (int i = 0; i < rt->npools; i++) {
        int nb = wb_pool_num_blocked(rt->pools[i]);
        SIM_CHECK(nb == 0, "pool:num-blocked-unbalanced", "num_blocked of pool %d is %d after all units finished", i, nb);
    }
    sim_count("c13.requests_checked_must_be_honoured", (uint64_t)S.lost_checks);
    sim_count("c13.requests_overlapping_scheduling_point", (uint64_t)S.concurrent_reqs);
    sim_count("c13.requests_via_xstream_or_sched", (uint64_t)(S.via_xstream + S.via_sched));
    sim_count("c13.key_values_of_migrating_units_checked", (uint64_t)S.key_values_checked);
    for (int k = 0; k < NKEYS; k++)
        ABT_OK(ABT_key_free(&S.keys[k]));
    wl_rt_stop(rt);
}
SIM_WORKLOAD("C13", "migrate-race", run_c13, 10)

/* ---- API-level rules: rejected requests, ABT_thread_migrate finds another stream ---- */
static volatile int hold_flag;
static ABT_pool holder_pool;
static void holder_fn(void *arg)
{
    (void)arg;
    while (!hold_flag)
        ABT_OK(ABT_thread_yield());
    /* two more scheduling points: a request accepted just before is honoured by now */
    ABT_OK(ABT_thread_yield());
    ABT_OK(ABT_thread_yield());
    ABT_OK(ABT_self_get_last_pool(&holder_pool));
}
/* a scheduler without any pool (it only looks at events): it cannot receive a migrating unit */
static int zs_init(ABT_sched s, ABT_sched_config c)
{
    (void)s;
    (void)c;
    return ABT_SUCCESS;
}
static ABT_pool zs_some_pool;
static void zs_run(ABT_sched s)
{
    {
        /* this function is run by the ULT of a main scheduler: it is never migratable (under the
         * 1.x API ABT_thread_set_migratable has no effect on it and returns ABT_SUCCESS) and every
         * request naming it is rejected */
        ABT_thread self;
        ABT_bool flag = ABT_TRUE;
        ABT_OK(ABT_self_get_thread(&self));
        ABT_OK(ABT_thread_set_migratable(self, ABT_TRUE));
        ABT_OK(ABT_thread_is_migratable(self, &flag));
        SIM_CHECK(flag == ABT_FALSE, "migrate:main-sched-ult", "the ULT of a main scheduler reports migratable after ABT_thread_set_migratable");
        int rc = ABT_thread_migrate_to_pool(self, zs_some_pool);
        SIM_CHECK(rc != ABT_SUCCESS, "migrate:main-sched-ult", "ABT_thread_migrate_to_pool naming the ULT of a main scheduler was accepted");
        rc = ABT_thread_migrate(self);
        SIM_CHECK(rc != ABT_SUCCESS, "migrate:main-sched-ult", "ABT_thread_migrate naming the ULT of a main scheduler was accepted");
        sim_count("c13.requests_naming_a_main_scheduler_refused", 1);
    }
    for (;;) {
        ABT_bool stop = ABT_FALSE;
        ABT_OK(ABT_sched_has_to_stop(s, &stop));
        if (stop == ABT_TRUE)
            break;
        ABT_OK(ABT_xstream_check_events(s));
        sim_yield();
    }
}
static int zs_free(ABT_sched s)
{
    (void)s;
    return ABT_SUCCESS;
}
static void run_c13_rules(void)
{
    wl_rt rt;
    hold_flag = 0;
    holder_pool = ABT_POOL_NULL;
    wl_rt_start(&rt, WL_RT_PRIVATE_ONLY);
    /* a stream that was joined but not freed is still in the list of streams, TERMINATED */
    int joined1 = rt.nes >= 2 && plan_bool();
    sim_note("C13 rules nes=%d%s ", rt.nes, joined1 ? " (stream 1 joined, not freed)" : "");
    if (joined1) {
        ABT_OK(ABT_xstream_join(rt.xs[1]));
        rt.joined[1] = 1;
    }
    /* optionally a running stream whose scheduler has no pool at all, placed before the other
     * secondary streams in the list of streams (which is ordered by rank): it is never a
     * migration target, neither by name nor for ABT_thread_migrate */
    ABT_xstream zxs = ABT_XSTREAM_NULL;
    ABT_sched zsched = ABT_SCHED_NULL;
    if (plan_n(3) == 0) {
        for (int e = 1; e < rt.nes; e++)
            if (!rt.joined[e])
                ABT_OK(ABT_xstream_set_rank(rt.xs[e], 20 + e));
        ABT_sched_def zdef = { .type = ABT_SCHED_TYPE_ULT, .init = zs_init, .run = zs_run, .free = zs_free, .get_migr_pool = NULL };
        zs_some_pool = rt.pools[0];
        ABT_OK(ABT_sched_create(&zdef, 0, NULL, ABT_SCHED_CONFIG_NULL, &zsched));
        ABT_OK(ABT_xstream_create(zsched, &zxs));
        sim_note("+poolless-stream ");
    }
    ABT_thread t;
    int p0 = rt.es_first_pool[0];
    ABT_OK(ABT_thread_create(rt.pools[p0], holder_fn, NULL, ABT_THREAD_ATTR_NULL, &t));
    if (zxs != ABT_XSTREAM_NULL) {
        int rz = ABT_thread_migrate_to_sched(t, zsched);
        SIM_CHECK(rz != ABT_SUCCESS, "migrate:poolless-target-accepted", "ABT_thread_migrate_to_sched naming a scheduler without pools was accepted");
        rz = ABT_thread_migrate_to_xstream(t, zxs);
        SIM_CHECK(rz != ABT_SUCCESS, "migrate:poolless-target-accepted", "ABT_thread_migrate_to_xstream naming a stream whose scheduler has no pool was accepted");
        sim_count("c13.poolless_targets_refused", 1);
    }
    /* same pool */
    int rc = ABT_thread_migrate_to_pool(t, rt.pools[p0]);
    SIM_CHECK(rc != ABT_SUCCESS, "migrate:same-pool-accepted", "a request naming the unit's current pool was accepted");
    /* non-migratable */
    ABT_OK(ABT_thread_set_migratable(t, ABT_FALSE));
    if (rt.npools > 1) {
        rc = ABT_thread_migrate_to_pool(t, rt.pools[(p0 + 1) % rt.npools]);
        SIM_CHECK(rc != ABT_SUCCESS, "migrate:non-migratable-accepted", "a request for a non-migratable unit was accepted");
    }
    rc = ABT_thread_migrate(t);
    SIM_CHECK(rc != ABT_SUCCESS, "migrate:non-migratable-accepted", "ABT_thread_migrate of a non-migratable unit was accepted");
    ABT_OK(ABT_thread_set_migratable(t, ABT_TRUE));
    /* ABT_thread_migrate: picks another *running* stream iff one exists */
    int candidates = rt.nes - 1 - joined1;
    rc = ABT_thread_migrate(t);
    if (candidates >= 1) {
        SIM_CHECK(rc == ABT_SUCCESS, "migrate:no-target-found", "ABT_thread_migrate returned %d although %d other running streams with different pools exist", rc, candidates);
    } else
        SIM_CHECK(rc == ABT_ERR_MIGRATION_NA, "migrate:error-code", "ABT_thread_migrate without another running stream returned %d", rc);
    sim_progress();
    hold_flag = 1;
    ABT_OK(ABT_thread_free(&t)); /* (never returns if the unit was parked in a dead stream's pool) */
    if (candidates >= 1) {
        int where = -1;
        for (int i = 0; i < rt.npools; i++)
            if (rt.pools[i] == holder_pool)
                where = i;
        SIM_CHECK(where >= 0 && rt.pool_es[where] != 0 && !(joined1 && rt.pool_es[where] == 1), "migrate:wrong-target",
                  "ABT_thread_migrate moved the unit to pool %d (stream %d): not a pool of another running stream", where, where >= 0 ? rt.pool_es[where] : -1);
        sim_count("c13.migrate_any_stream_checked", 1);
    }
    {
        /* a stream whose scheduler has two pools: a unit in its *second* pool names that very
         * scheduler / stream as its migration target: rejected (the unit is already there),
         * although the scheduler's migration pool (the first one) is not the unit's pool */
        ABT_pool a[2];
        ABT_xstream x;
        ABT_sched sc;
        ABT_thread t2;
        static const ABT_sched_predef sk[] = { ABT_SCHED_BASIC, ABT_SCHED_PRIO, ABT_SCHED_RANDWS };
        for (int i = 0; i < 2; i++)
            ABT_OK(ABT_pool_create_basic(ABT_POOL_FIFO, ABT_POOL_ACCESS_MPMC, ABT_TRUE, &a[i]));
        ABT_OK(ABT_xstream_create_basic(sk[plan_n(3)], 2, a, ABT_SCHED_CONFIG_NULL, &x));
        ABT_OK(ABT_xstream_get_main_sched(x, &sc));
        hold_flag = 0;
        holder_pool = ABT_POOL_NULL;
        ABT_OK(ABT_thread_create(a[1], holder_fn, NULL, ABT_THREAD_ATTR_NULL, &t2));
        rc = ABT_thread_migrate_to_sched(t2, sc);
        SIM_CHECK(rc != ABT_SUCCESS, "migrate:same-sched-accepted", "ABT_thread_migrate_to_sched naming the scheduler whose second pool holds the unit was accepted");
        rc = ABT_thread_migrate_to_xstream(t2, x);
        SIM_CHECK(rc != ABT_SUCCESS, "migrate:same-sched-accepted", "ABT_thread_migrate_to_xstream naming the stream whose second pool holds the unit was accepted");
        hold_flag = 1;
        ABT_OK(ABT_thread_free(&t2));
        SIM_CHECK(holder_pool == a[1], "migrate:moved-without-request", "a unit whose requests were all rejected ended in another pool");
        ABT_OK(ABT_xstream_join(x));
        ABT_OK(ABT_xstream_free(&x));
        sim_progress();
    }
    if (zxs != ABT_XSTREAM_NULL) {
        ABT_OK(ABT_xstream_join(zxs));
        ABT_OK(ABT_xstream_free(&zxs));
        ABT_OK(ABT_sched_free(&zsched)); /* not automatic: created by ABT_sched_create without a configuration */
    }
    wl_rt_stop(&rt);
}
SIM_WORKLOAD("C13", "rules", run_c13_rules, 2)

/* ---- scenario "sequence": one unit at a time, no concurrent requests, so every step has one
 * legal outcome.  The unit moves between pools by migration requests to itself and by other
 * means (ABT_self_set_associated_pool; termination and ABT_thread_revive into another pool),
 * and asks again for pools it has been migrated to before.  Every accepted request must be
 * performed at the next scheduling point with exactly one callback; the other moves must be
 * performed without a callback. ---- */
#define SQ_MAX 10
static struct {
    wl_rt rt;
    ABT_thread th;
    int nsteps[2], kind[2][SQ_MAX], pool[2][SQ_MAX];
    volatile int life, cb_calls, done[2], go;
    int parting_request, revive_pool, cb_at_end;
    long migrations, other_moves;
} Q;
static void sq_cb(ABT_thread th, void *arg)
{
    (void)th;
    (void)arg;
    Q.cb_calls++;
}
static int sq_pool_index(ABT_pool p)
{
    for (int i = 0; i < Q.rt.npools; i++)
        if (Q.rt.pools[i] == p)
            return i;
    return -1;
}
static void sq_fn(void *arg)
{
    (void)arg;
    int life = Q.life;
    ABT_thread self;
    ABT_pool lp;
    while (!Q.go) /* the callback is registered by the creator after the creation */
        ABT_OK(ABT_thread_yield());
    ABT_OK(ABT_self_get_thread(&self));
    ABT_OK(ABT_self_get_last_pool(&lp));
    int cur = sq_pool_index(lp);
    if (life == 1) {
        /* a request that the first life left unserved died with that life */
        SIM_CHECK(cur == Q.revive_pool, "migrate:stale-request-after-revive", "the unit revived into pool %d starts its second life in pool %d%s", Q.revive_pool, cur,
                  Q.parting_request ? " (its first life ended with an accepted, unserved migration request)" : "");
        SIM_CHECK(Q.cb_calls == Q.cb_at_end, "migrate:callback-without-migration", "the migration callback ran %d times between the end of the first life and the start of the second", Q.cb_calls - Q.cb_at_end);
    }
    for (int i = 0; i < Q.nsteps[life]; i++) {
        int p = Q.pool[life][i];
        int cb0 = Q.cb_calls;
        if (Q.kind[life][i] == 0) {
            int rc = ABT_thread_migrate_to_pool(self, Q.rt.pools[p]);
            if (p == cur) {
                SIM_CHECK(rc != ABT_SUCCESS, "migrate:same-pool-accepted", "a request naming the unit's current pool %d was accepted", p);
                continue;
            }
            SIM_CHECK(rc == ABT_SUCCESS, "migrate:request-rejected", "ABT_thread_migrate_to_pool(pool %d) of a unit in pool %d returned %d", p, cur, rc);
            ABT_OK(ABT_thread_yield());
            ABT_OK(ABT_self_get_last_pool(&lp));
            SIM_CHECK(sq_pool_index(lp) == p, "migrate:lost-request", "step %d of life %d: the accepted request for pool %d was not performed at the next scheduling point: the unit runs in pool %d (before: pool %d)",
                      i, life, p, sq_pool_index(lp), cur);
            SIM_CHECK(Q.cb_calls == cb0 + 1, "migrate:callback-count", "step %d of life %d: the callback ran %d times for one performed migration", i, life, Q.cb_calls - cb0);
            Q.migrations++;
            cur = p;
        } else {
            ABT_OK(ABT_self_set_associated_pool(Q.rt.pools[p]));
            ABT_OK(ABT_thread_yield());
            ABT_OK(ABT_self_get_last_pool(&lp));
            SIM_CHECK(sq_pool_index(lp) == p, "migrate:set-associated-pool", "after ABT_self_set_associated_pool(pool %d) and a yield the unit runs in pool %d", p, sq_pool_index(lp));
            SIM_CHECK(Q.cb_calls == cb0, "migrate:callback-without-migration", "the migration callback ran for ABT_self_set_associated_pool");
            Q.other_moves++;
            cur = p;
        }
        sim_progress();
    }
    if (life == 0 && Q.parting_request && Q.rt.npools > 1) {
        /* accepted, but the unit returns before any scheduling point: nothing may come of it */
        int p = (cur + 1 + (Q.parting_request - 1) % (Q.rt.npools - 1)) % Q.rt.npools;
        int rc = ABT_thread_migrate_to_pool(self, Q.rt.pools[p]);
        SIM_CHECK(rc == ABT_SUCCESS, "migrate:request-rejected", "ABT_thread_migrate_to_pool(pool %d) of a unit in pool %d returned %d", p, cur, rc);
        sim_count("c13.requests_left_unserved_at_termination", 1);
    }
    Q.cb_at_end = Q.cb_calls;
    Q.done[life] = 1;
}
static void run_c13_sequence(void)
{
    memset(&Q, 0, sizeof Q);
    wl_rt *rt = &Q.rt;
    wl_rt_start(rt, WL_RT_NO_TOPO2);
    sim_note("C13 sequence: ");
    for (int l = 0; l < 2; l++) {
        Q.nsteps[l] = plan_range(1, SQ_MAX);
        for (int i = 0; i < Q.nsteps[l]; i++) {
            Q.kind[l][i] = plan_n(3) == 0;
            Q.pool[l][i] = (int)plan_n((uint32_t)rt->npools);
            sim_note("%s%d ", Q.kind[l][i] ? "set" : "mig", Q.pool[l][i]);
        }
        sim_note("| ");
    }
    Q.parting_request = plan_bool() ? 1 + (int)plan_n(8) : 0;
    int how = (int)plan_n(3);
    if (how == 0) {
        ABT_OK(ABT_thread_create(rt->pools[plan_n((uint32_t)rt->npools)], sq_fn, NULL, ABT_THREAD_ATTR_NULL, &Q.th));
        ABT_OK(ABT_thread_set_callback(Q.th, sq_cb, NULL));
    } else {
        /* the callback comes with the creation attribute; the unit is created migratable, or
         * not migratable and made migratable afterwards -- the callback stays registered */
        ABT_thread_attr attr;
        ABT_OK(ABT_thread_attr_create(&attr));
        ABT_OK(ABT_thread_attr_set_callback(attr, sq_cb, NULL));
        ABT_OK(ABT_thread_attr_set_migratable(attr, how == 1 ? ABT_TRUE : ABT_FALSE));
        ABT_OK(ABT_thread_create(rt->pools[plan_n((uint32_t)rt->npools)], sq_fn, NULL, attr, &Q.th));
        ABT_OK(ABT_thread_attr_free(&attr));
        if (how == 2) {
            int rc = ABT_thread_migrate_to_pool(Q.th, rt->pools[0]);
            ABT_pool lp;
            ABT_OK(ABT_thread_get_last_pool(Q.th, &lp));
            SIM_CHECK(rc != ABT_SUCCESS || lp == rt->pools[0], "migrate:non-migratable-accepted", "a request for a unit created as not migratable was accepted");
            ABT_bool m = ABT_TRUE;
            ABT_OK(ABT_thread_is_migratable(Q.th, &m));
            SIM_CHECK(m == ABT_FALSE, "migrate:attribute", "a unit created with the attribute 'not migratable' reports migratable");
            ABT_OK(ABT_thread_set_migratable(Q.th, ABT_TRUE));
            sim_count("c13.units_made_migratable_later", 1);
        }
    }
    Q.go = 1;
    ABT_OK(ABT_thread_join(Q.th));
    SIM_CHECK(Q.done[0], "once:not-exactly-once", "the unit did not finish its first life");
    if (plan_bool()) {
        /* a second life in another pool: earlier targets are requested again */
        Q.life = 1;
        Q.revive_pool = (int)plan_n((uint32_t)rt->npools);
        ABT_OK(ABT_thread_revive(rt->pools[Q.revive_pool], sq_fn, NULL, &Q.th));
        ABT_OK(ABT_thread_join(Q.th));
        SIM_CHECK(Q.done[1], "once:not-exactly-once", "the revived unit did not finish");
    }
    ABT_OK(ABT_thread_free(&Q.th));
    wl_rt_stop(rt);
    sim_count("c13.sequence_migrations", (uint64_t)Q.migrations);
    sim_count("c13.sequence_other_moves", (uint64_t)Q.other_moves);
}
SIM_WORKLOAD("C13", "sequence", run_c13_sequence, 4)
