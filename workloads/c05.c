/* C05: condition variables -- atomic release-and-wait, exact wake-ups, no spurious wake-up
 * C19 (first half): timed waits respect their deadline and never damage the waiter queue
 *
 * Oracle: credit-interval model (DESIGN.md section 6, C05/C19).  Every model update happens
 * while the harness holds the ABT_mutex, so mutex-protected events are totally ordered.
 *   H            waiters registered (under the mutex, right before the wait call) and not yet returned
 *   L            lower bound on waiters that a signaller taking the mutex later must find queued
 *   [c_min,c_max] bounds on the number of wake-ups issued so far
 *   returns      wait calls that returned ABT_SUCCESS
 * Upper bound on queued waiters: H minus the wake-ups certainly issued but not yet returned.
 */
#include "wl_common.h"
#include "whitebox.h"

#define MAXA 8
enum { R_WAITER = 0, R_SIGNALLER };
enum { OP_SIGNAL_IN = 0, OP_BCAST_IN, OP_SIGNAL_OUT, OP_BCAST_OUT, OP_N };
enum { DL_NONE = 0, DL_PAST, DL_NEAR, DL_FAR, DL_NEVER /* a time_t value meaning "never": LONG_MAX and friends */ };
#define FAR_NS (10000000ULL * 1000000000ULL) /* 1e7 s: never reached, even by the accelerated clock of a hung run */

typedef struct wstate {
    int registered, returned, in_lo, timed;
    uint64_t deadline;
    /* white-box layer (wait-list events of the condition variable) */
    int simtid;
    ABT_thread self;
    const void *elem;
    int enq, deq, unlinked;
} wstate;

static struct {
    wl_rt rt;
    ABT_mutex m;
    ABT_cond cv;
    int holder;
    int recursive;
    int H, L, c_min, c_max, returns, timeouts;
    int pend_sig, pend_bc; /* outside-the-mutex signals/broadcasts in flight */
    unsigned long regs;
    wstate W[MAXA * 4];
    int nw;
    int timed_mode;
    int nwaits_total, waits_done;
    wl_actor A[MAXA];
    int nA;
    int signallers_done, nsignallers;
    long sig_with_waiter, bc_with_waiters, to_head, to_mid;
    const void *cvwl; /* the condition variable's wait list */
    int in_mutex_signal; /* the harness is inside ABT_cond_signal/broadcast while holding the mutex */
    long wb_bound, wb_atomicity_checks, tasklet_refusals;
} S;

/* ---- white-box layer: the events of the condition variable's wait list make three clauses
 * exact.  (1) release-and-wait is atomic: when a signal or broadcast issued by a caller that
 * holds the mutex has gone through the wait list, every caller that entered a wait before
 * (all of them registered under the mutex) must have been on the list.  (2) ABT_SUCCESS is
 * returned exactly by the callers a signal or broadcast took off the list.  (3) TIMEDOUT is
 * returned exactly by the callers that unlinked themselves, and only at or after the
 * deadline (judged at the decision, not at the return). ---- */
/* The library compares times as double seconds; once the virtual clock has jumped to a far
 * deadline (10^10 s and beyond) one ulp of a double is microseconds.  "Passed" is judged with
 * that granularity: two ulps of a double at the magnitude of now. */
static int deadline_reached(uint64_t now, uint64_t dl)
{
    uint64_t tol = (now >> 51) + 2;
    return now + tol >= dl;
}
static void whoami(int *tid, ABT_thread *th)
{
    *th = ABT_THREAD_NULL;
    if (ABT_self_get_thread(th) != ABT_SUCCESS)
        *th = ABT_THREAD_NULL;
    *tid = sim_self();
}
static wstate *w_by_elem(const void *who)
{
    for (int i = S.nw - 1; i >= 0; i--)
        if (S.W[i].enq && S.W[i].elem == who && !S.W[i].returned)
            return &S.W[i];
    return NULL;
}
static void cond_event(int kind, const void *obj, const void *who)
{
    if (obj != S.cvwl)
        return;
    switch (kind) {
        case 1:
        case 8: {
            int tid;
            ABT_thread th;
            whoami(&tid, &th);
            for (int i = S.nw - 1; i >= 0; i--) {
                wstate *w = &S.W[i];
                if (w->registered && !w->returned && !w->enq && (th != ABT_THREAD_NULL ? w->self == th : (w->self == ABT_THREAD_NULL && w->simtid == tid))) {
                    w->enq = 1;
                    w->elem = who;
                    S.wb_bound++;
                    SIM_CHECK((kind == 8) == (w->timed != 0), "cond:waitlist", "wait #%d is %s but was enqueued as a %s waiter", i, w->timed ? "timed" : "untimed", kind == 8 ? "timed" : "untimed");
                    break;
                }
            }
            break;
        }
        case 2: {
            wstate *w = w_by_elem(who);
            if (w) {
                SIM_CHECK(!w->deq && !w->unlinked, "cond:waitlist", "a waiter is taken off the wait list twice (dequeued=%d, unlinked=%d)", w->deq, w->unlinked);
                w->deq = 1;
            }
            break;
        }
        case 4: {
            wstate *w = w_by_elem(who);
            if (w) {
                SIM_CHECK(!w->deq, "cond:timedout-although-signalled", "a timed waiter unlinks itself as timed out after a signal had taken it off the list");
                SIM_CHECK(w->timed && deadline_reached(sim_now_ns(), w->deadline), "cond:timedout-before-deadline", "a waiter decides that it timed out %lu ns before its deadline",
                          (unsigned long)(w->deadline - sim_now_ns()));
                w->unlinked = 1;
            }
            break;
        }
        case 3:
        case 9:
            if (S.in_mutex_signal) {
                S.wb_atomicity_checks++;
                for (int i = 0; i < S.nw; i++) {
                    wstate *w = &S.W[i];
                    SIM_CHECK(!(w->registered && !w->returned && !w->enq), "cond:release-and-wait-not-atomic",
                              "a %s issued by a caller holding the mutex went through the wait list while wait #%d, which released the mutex before, was not on the list yet: it misses that wake-up",
                              kind == 3 ? "signal" : "broadcast", i);
                }
            }
            break;
    }
}

static void lock(wl_actor *a)
{
    ABT_OK(ABT_mutex_lock(S.m));
    SIM_CHECK(S.holder == -1, "cond:mutex-exclusion", "actor %d got the mutex while %d holds it", a->id, S.holder);
    S.holder = a->id;
}
static void unlock(wl_actor *a)
{
    SIM_CHECK(S.holder == a->id, "cond:mutex-exclusion", "actor %d unlocks but holder is %d", a->id, S.holder);
    S.holder = -1;
    ABT_OK(ABT_mutex_unlock(S.m));
}

/* timed waiters whose deadline has passed stop counting as "must be found queued" */
static void expire(void)
{
    uint64_t now = sim_now_ns();
    for (int i = 0; i < S.nw; i++) {
        wstate *w = &S.W[i];
        /* (with the granularity the library itself can see: after a jump of the virtual clock to
         * a far deadline a waiter may be timed out a double's ulp before the model's integer
         * clock reaches its deadline, and must not be counted as certainly queued then) */
        if (w->registered && !w->returned && w->timed && w->in_lo && deadline_reached(now, w->deadline)) {
            w->in_lo = 0;
            if (S.L > 0)
                S.L--;
        }
    }
}

static int queued_upper(void)
{
    int out = S.c_min - S.returns;
    if (out < 0)
        out = 0;
    int q = S.H - out;
    return q < 0 ? 0 : q;
}
static void clear_one_certain(void)
{
    if (S.L > 0)
        S.L--;
}
/* A signal or broadcast issued while holding the mutex: the upper bound is fixed before the
 * call; the lower bound after it, with the clock of the return instant, because a timed
 * waiter whose deadline passes during the call may legitimately time out instead. */
static void model_signal_pre(void)
{
    expire();
    if (queued_upper() >= 1 || S.L >= 1)
        S.c_max++;
}
static void model_signal_post(void)
{
    expire();
    if (S.L >= 1) {
        S.c_min++;
        S.L--;
        S.sig_with_waiter++;
    }
}
static void model_bcast_pre(void)
{
    expire();
    int qu = queued_upper();
    S.c_max += qu > S.L ? qu : S.L;
}
static void model_bcast_post(void)
{
    expire();
    if (S.L > 0)
        S.bc_with_waiters++;
    S.c_min += S.L;
    S.L = 0;
    for (int i = 0; i < S.nw; i++)
        S.W[i].in_lo = 0;
}

static void do_wait(wl_actor *a, int dl_kind, int arg)
{
    lock(a);
    int wi = S.nw++;
    wstate *w = &S.W[wi];
    w->registered = 1;
    w->timed = dl_kind != DL_NONE;
    w->in_lo = (S.pend_sig == 0 && S.pend_bc == 0);
    if (w->in_lo)
        S.L++;
    S.H++;
    S.regs++;
    whoami(&w->simtid, &w->self);
    int r;
    struct timespec ts;
    uint64_t now0 = sim_now_ns();
    if (dl_kind == DL_NONE) {
        S.holder = -1; /* the wait releases the mutex */
        r = ABT_cond_wait(S.cv, S.m);
    } else {
        uint64_t q = sim_quantum_ns();
        uint64_t dl = dl_kind == DL_PAST ? now0 - 5 : dl_kind == DL_NEAR ? now0 + q * (3 + (uint64_t)(arg % 300)) : now0 + FAR_NS;
        w->deadline = dl;
        ts.tv_sec = (time_t)(dl / 1000000000ULL);
        ts.tv_nsec = (long)(dl % 1000000000ULL);
        if (dl_kind == DL_NEVER) {
            static const long never[] = { 0x7fffffffffffffffL, 9223372037L, 10000000000L, 0x7fffffffL * 16, 253402300800L /* year 10000 */, 9223372036L };
            ts.tv_sec = (time_t)never[arg % 6];
            ts.tv_nsec = (long)(arg % 1000) * 1000000L + 999;
            /* the model's copy of the deadline, in ns, where that is representable (the virtual
             * clock may jump there when everybody else is idle); otherwise "never" */
            w->deadline = (uint64_t)ts.tv_sec < 18446744073ULL ? (uint64_t)ts.tv_sec * 1000000000ULL + (uint64_t)ts.tv_nsec : ~0ULL;
        }
        /* the deadline handed to the library has nanosecond resolution: keep the model's copy identical */
        S.holder = -1;
        r = ABT_cond_timedwait(S.cv, S.m, &ts);
    }
    /* returns holding the mutex */
    SIM_CHECK(S.holder == -1, "cond:returned-without-mutex", "wait of actor %d returned while actor %d holds the mutex", a->id, S.holder);
    S.holder = a->id;
    if (S.recursive) {
        /* holding a recursive mutex means being recorded as its owner: a nested trylock by the
         * waiter must succeed */
        int rc = ABT_mutex_trylock(S.m);
        SIM_CHECK(rc == ABT_SUCCESS, "cond:returned-without-ownership", "actor %d returned from a wait on a recursive mutex, but its nested ABT_mutex_trylock returned %d", a->id, rc);
        ABT_OK(ABT_mutex_unlock(S.m));
    }
    expire();
    if (w->enq) {
        if (r == ABT_SUCCESS)
            SIM_CHECK(w->deq && !w->unlinked, "cond:spurious-or-duplicated-wakeup", "wait #%d of actor %d returned ABT_SUCCESS, but no signal or broadcast has taken it off the wait list (unlinked by time-out: %d)", wi,
                      a->id, w->unlinked);
        else
            SIM_CHECK(w->unlinked && !w->deq, "cond:timedout-although-signalled", "wait #%d of actor %d returned %d although a signal or broadcast had taken it off the wait list: that wake-up is lost", wi,
                      a->id, r);
    }
    w->returned = 1;
    S.H--;
    if (r == ABT_SUCCESS) {
        S.returns++;
        w->in_lo = 0;
        SIM_CHECK(S.pend_bc > 0 || S.returns <= S.c_max + S.pend_sig, "cond:spurious-or-duplicated-wakeup",
                  "wait #%d of actor %d returned ABT_SUCCESS but only %d wake-ups can have been issued (returns=%d, c_min=%d, c_max=%d, H=%d, L=%d)", wi, a->id, S.c_max,
                  S.returns, S.c_min, S.c_max, S.H, S.L);
    } else {
        SIM_CHECK(r == ABT_ERR_COND_TIMEDOUT, "api-error", "cond wait returned %d", r);
        SIM_CHECK(w->timed, "cond:timeout-from-untimed-wait", "ABT_cond_wait returned ABT_ERR_COND_TIMEDOUT");
        SIM_CHECK(deadline_reached(sim_now_ns(), w->deadline), "cond:timedout-before-deadline", "ABT_cond_timedwait of actor %d returned TIMEDOUT %lu ns before its deadline", a->id,
                  (unsigned long)(w->deadline - sim_now_ns()));
        S.timeouts++;
        if (w->in_lo) { /* (normally expire() has removed it from L already: its deadline has passed) */
            w->in_lo = 0;
            if (S.L > 0)
                S.L--;
        }
    }
    S.waits_done++;
    unlock(a);
    sim_progress();
}

static void body(wl_actor *a)
{
    for (int i = 0; i < a->nops; i++) {
        int op = a->ops[i], arg = a->args[i];
        a->cur_op = i;
        if (a->ctx == (void *)R_WAITER) {
            do_wait(a, op, arg);
        } else {
            for (int k = 0; k < (arg & 3); k++)
                wl_actor_pause(a, 1);
            switch (op) {
                case OP_SIGNAL_IN:
                    lock(a);
                    model_signal_pre();
                    S.in_mutex_signal = 1;
                    ABT_OK(ABT_cond_signal(S.cv));
                    S.in_mutex_signal = 0;
                    model_signal_post();
                    unlock(a);
                    break;
                case OP_BCAST_IN:
                    lock(a);
                    model_bcast_pre();
                    S.in_mutex_signal = 1;
                    ABT_OK(ABT_cond_broadcast(S.cv));
                    S.in_mutex_signal = 0;
                    model_bcast_post();
                    unlock(a);
                    break;
                case OP_SIGNAL_OUT: {
                    /* outside the mutex: the instant lies somewhere in the call interval, so the
                     * call only widens the intervals.  While it is pending it may account for
                     * one return; waiters registering meanwhile are not "certainly queued". */
                    expire();
                    int had = queued_upper();
                    unsigned long r0 = S.regs;
                    clear_one_certain(); /* one of the certainly-queued waiters may be gone afterwards */
                    S.pend_sig++;
                    ABT_OK(ABT_cond_signal(S.cv));
                    S.pend_sig--;
                    if (had >= 1 || S.regs != r0)
                        S.c_max++;
                    break;
                }
                case OP_BCAST_OUT: {
                    expire();
                    int had = queued_upper();
                    unsigned long r0 = S.regs;
                    S.L = 0;
                    for (int w = 0; w < S.nw; w++)
                        S.W[w].in_lo = 0;
                    S.pend_bc++;
                    ABT_OK(ABT_cond_broadcast(S.cv));
                    S.pend_bc--;
                    S.c_max += had + (int)(S.regs - r0);
                    break;
                }
            }
            sim_progress();
        }
    }
    if (a->ctx == (void *)R_SIGNALLER)
        S.signallers_done++;
}

/* under the 1.x API a tasklet cannot wait: ABT_cond_wait returns ABT_ERR_COND and must leave the
 * mutex with the caller and the condition variable untouched */
static void tasklet_body(wl_actor *a)
{
    if (ABT_mutex_trylock(S.m) != ABT_SUCCESS)
        return;
    SIM_CHECK(S.holder == -1, "cond:mutex-exclusion", "a tasklet's trylock succeeded while actor %d holds the mutex", S.holder);
    S.holder = a->id;
    int rc = ABT_cond_wait(S.cv, S.m);
    SIM_CHECK(rc == ABT_ERR_COND, "cond:tasklet", "ABT_cond_wait called by a tasklet returned %d, documented: ABT_ERR_COND (%d)", rc, ABT_ERR_COND);
    SIM_CHECK(S.holder == a->id, "cond:mutex-exclusion", "the refused ABT_cond_wait of a tasklet gave the mutex away (holder %d)", S.holder);
    S.tasklet_refusals++;
    unlock(a);
    sim_progress();
}

static void diag(char *buf, int sz)
{
    int k = snprintf(buf, (size_t)sz, "L=%d H=%d c=[%d,%d] returns=%d timeouts=%d waits=%d/%d holder=%d sigdone=%d/%d ", S.L, S.H, S.c_min, S.c_max, S.returns,
                     S.timeouts, S.waits_done, S.nwaits_total, S.holder, S.signallers_done, S.nsignallers);
    wl_actors_diag(S.A, S.nA, buf + k, sz - k);
}

static int force_recursive;
static void run_cond(int timed_mode)
{
    memset(&S, 0, sizeof S);
    S.holder = -1;
    S.timed_mode = timed_mode;
    sim_set_diag_cb(diag);
    wl_rt *rt = &S.rt;
    wl_rt_start(rt, WL_RT_NO_TOPO2);
    sim_allow_faults((1u << SIM_F_FUTEX_SPURIOUS) | (1u << SIM_F_COND_SPURIOUS) | (1u << SIM_F_NANOSLEEP_EARLY) | (1u << SIM_F_STALL) | (1u << SIM_F_SLOW_NODE) |
                     (1u << SIM_F_TARGET_DELAY) | (timed_mode ? (1u << SIM_F_CLOCK_JUMP) : 0));
    S.recursive = plan_n(3) == 0 || force_recursive;
    if (S.recursive) {
        ABT_mutex_attr at;
        ABT_OK(ABT_mutex_attr_create(&at));
        ABT_OK(ABT_mutex_attr_set_recursive(at, ABT_TRUE));
        ABT_OK(ABT_mutex_create_with_attr(at, &S.m));
        ABT_OK(ABT_mutex_attr_free(&at));
        sim_note("recursive-mutex ");
    } else
        ABT_OK(ABT_mutex_create(&S.m));
    ABT_OK(ABT_cond_create(&S.cv));
    S.cvwl = wb_cond_waitlist(S.cv);
    sim_set_event_cb(cond_event);
    int n = plan_range(2, sim_limit("actors", 6));
    int maxops = sim_limit("ops", 4);
    S.nA = n;
    static const char *son[] = { "sig", "bc", "sig-out", "bc-out" };
    static const char *dln[] = { "wait", "past", "near", "far", "never" };
    sim_note("%s actors=%d: ", timed_mode ? "C19 cond-timed" : "C05 cond", n);
    int have_waiter = 0;
    for (int i = 0; i < n; i++) {
        wl_actor *a = &S.A[i];
        a->id = i;
        a->kind = plan_n(3) == 0 ? AK_EXT : AK_ULT;
        a->pool = (int)plan_n((uint32_t)rt->npools);
        a->body = body;
        int role = (i == 0) ? R_WAITER : (i == 1) ? R_SIGNALLER : (int)plan_n(2);
        /* ABT_cond_timedwait may be called by a tasklet (it blocks its stream meanwhile, so its
         * deadlines are always reached: past or near) */
        if (timed_mode && role == R_WAITER && i >= 2 && !S.recursive && plan_n(5) == 0)
            a->kind = AK_TASKLET;
        a->ctx = (void *)(long)role;
        a->nops = plan_range(1, maxops);
        sim_note("[%s@%d %s:", wl_actor_kind_names[a->kind], a->pool, role == R_WAITER ? "W" : "S");
        for (int j = 0; j < a->nops; j++) {
            if (role == R_WAITER) {
                int dl = DL_NONE;
                if (timed_mode) {
                    int r = (int)plan_n(10);
                    dl = r < 3 ? DL_NONE : r < 4 ? DL_PAST : r < 8 ? DL_NEAR : r < 9 ? DL_FAR : DL_NEVER;
                    if (a->kind == AK_TASKLET)
                        dl = r < 3 ? DL_PAST : DL_NEAR;
                }
                a->ops[j] = dl;
                S.nwaits_total++;
                have_waiter = 1;
                sim_note(" %s", dln[dl]);
            } else {
                a->ops[j] = (int)plan_n(OP_N);
                sim_note(" %s", son[a->ops[j]]);
            }
            a->args[j] = (int)plan_n(1024);
        }
        if (role == R_SIGNALLER)
            S.nsignallers++;
        sim_note("] ");
    }
    (void)have_waiter;
    wl_actors_spawn(rt, S.A, n);
    wl_actor T;
    memset(&T, 0, sizeof T);
    int have_tasklet = !S.recursive && plan_n(5) == 0;
    if (have_tasklet) {
        T.id = 50;
        T.kind = AK_TASKLET;
        T.pool = (int)plan_n((uint32_t)rt->npools);
        T.body = tasklet_body;
        wl_actors_spawn(rt, &T, 1);
    }
    /* quiescent point 1: every signaller has finished; every wake-up that was certainly owed
     * must arrive (a lost signal shows up here as a hang, before any flushing broadcast) */
    while (S.signallers_done < S.nsignallers)
        ABT_OK(ABT_thread_yield());
    for (;;) {
        ABT_OK(ABT_mutex_lock(S.m));
        int ok = S.returns >= S.c_min;
        ABT_OK(ABT_mutex_unlock(S.m));
        if (ok)
            break;
        ABT_OK(ABT_thread_yield());
    }
    sim_progress();
    /* flush: release the remaining waiters with broadcasts (each one is accounted for) */
    wl_actor me = { .id = 100 };
    while (S.waits_done < S.nwaits_total) {
        lock(&me);
        expire();
        /* waiters with a deadline that will be reached are not helped: a timed wait that nobody
         * wakes returns once its deadline has passed (virtual time moves with every step) */
        int need = 0;
        for (int i = 0; i < S.nw; i++)
            if (S.W[i].registered && !S.W[i].returned && (!S.W[i].timed || S.W[i].deadline >= sim_now_ns() + FAR_NS / 2))
                need++;
        /* (a waiter that registers between this look and its wait call is seen next time) */
        if (S.H > 0 && need > 0) {
            model_bcast_pre();
            S.in_mutex_signal = 1;
            ABT_OK(ABT_cond_broadcast(S.cv));
            S.in_mutex_signal = 0;
            model_bcast_post();
        }
        unlock(&me);
        ABT_OK(ABT_thread_yield());
    }
    wl_actors_join(rt, S.A, n);
    if (have_tasklet)
        wl_actors_join(rt, &T, 1);
    SIM_CHECK(S.returns >= S.c_min && S.returns <= S.c_max, "cond:wakeup-count", "returns=%d outside [%d,%d] at the end", S.returns, S.c_min, S.c_max);
    sim_count(timed_mode ? "c19.timeouts" : "c05.timeouts", (uint64_t)S.timeouts);
    sim_count(timed_mode ? "c19.signal_with_certain_waiter" : "c05.signal_with_certain_waiter", (uint64_t)S.sig_with_waiter);
    sim_count(timed_mode ? "c19.broadcast_with_certain_waiters" : "c05.broadcast_with_certain_waiters", (uint64_t)S.bc_with_waiters);
    for (int i = 0; i < n; i++)
        if (S.A[i].kind == AK_TASKLET)
            sim_count("cond.tasklet_timed_waits", (uint64_t)S.A[i].nops);
    sim_count("cond.waits_bound_to_list_elements", (uint64_t)S.wb_bound);
    sim_count("cond.in_mutex_signals_checked_for_atomicity", (uint64_t)S.wb_atomicity_checks);
    if (S.tasklet_refusals)
        sim_count("cond.tasklet_waits_refused", (uint64_t)S.tasklet_refusals);
    sim_set_event_cb(NULL);
    ABT_OK(ABT_cond_free(&S.cv));
    ABT_OK(ABT_mutex_free(&S.m));
    wl_rt_stop(rt);
}

static void run_c05(void)
{
    run_cond(0);
}
static void run_c19_cond(void)
{
    run_cond(1);
}
SIM_WORKLOAD("C05", "cond-credit", run_c05, 10)
/* the property also covers ABT_cond_timedwait's release-and-wait: same model, timed waiters */
static void run_c05_timed(void)
{
    run_cond(1);
}
SIM_WORKLOAD("C05", "cond-credit-timed", run_c05_timed, 5)
SIM_WORKLOAD("C19", "cond-timed", run_c19_cond, 10)
/* C04's "correct recursion" includes the ownership a waiter gives up and gets back inside
 * ABT_cond_wait / ABT_cond_timedwait on a recursive mutex */
static void run_c04_reccond(void)
{
    force_recursive = 1;
    run_cond((int)plan_n(2));
}
SIM_WORKLOAD("C04", "recursive-mutex-cond", run_c04_reccond, 2)


/* ---- scenario "rejected-free": ABT_cond_free of a condition variable that still has waiters is
 * an error the 1.x API reports (ABT_ERR_COND); the refused call leaves the handle and the
 * object as they were: the waiters are still there and the next broadcast under the mutex
 * releases every one of them. ---- */
static struct {
    wl_rt rt;
    ABT_mutex m;
    ABT_cond cv;
    int n;
    volatile int waiting, returned, pred;
    wl_actor A[MAXA];
} RF;
static void rf_waiter(wl_actor *a)
{
    ABT_OK(ABT_mutex_lock(RF.m));
    RF.waiting++;
    while (!RF.pred) {
        if ((a->args[0] & 1) && a->kind == AK_ULT) {
            /* a timed wait of a ULT polls the clock and owns no timer the virtual clock could
             * jump to while everybody is idle: its deadline, years ahead, is never reached.  (An
             * external thread's timed wait sleeps on a timer, which an idle system jumps to.) */
            struct timespec ts = wl_abstime(4000000000ULL * 1000000000ULL);
            int r = ABT_cond_timedwait(RF.cv, RF.m, &ts);
            SIM_CHECK(r == ABT_SUCCESS, "cond:timedout-before-deadline", "a timed wait with a deadline 4*10^9 s ahead returned %d", r);
        } else
            ABT_OK(ABT_cond_wait(RF.cv, RF.m));
    }
    RF.returned++;
    ABT_OK(ABT_mutex_unlock(RF.m));
    sim_progress();
}
static void rf_diag(char *buf, int sz)
{
    int k = snprintf(buf, (size_t)sz, "rejected-free: waiting=%d returned=%d of %d ", RF.waiting, RF.returned, RF.n);
    wl_actors_diag(RF.A, RF.n, buf + k, sz - k);
}
static void run_c05_rejected_free(void)
{
    memset(&RF, 0, sizeof RF);
    sim_set_diag_cb(rf_diag);
    wl_rt *rt = &RF.rt;
    wl_rt_start(rt, WL_RT_NO_TOPO2);
    ABT_OK(ABT_mutex_create(&RF.m));
    ABT_OK(ABT_cond_create(&RF.cv));
    const void *wlst = wb_cond_waitlist(RF.cv);
    RF.n = plan_range(1, 4);
    sim_note("C05 rejected-free waiters=%d: ", RF.n);
    for (int i = 0; i < RF.n; i++) {
        wl_actor *a = &RF.A[i];
        a->id = i;
        a->kind = plan_n(3) == 0 ? AK_EXT : AK_ULT;
        a->pool = (int)plan_n((uint32_t)rt->npools);
        a->body = rf_waiter;
        a->args[0] = (int)plan_n(4);
        sim_note("%s%s ", wl_actor_kind_names[a->kind], ((a->args[0] & 1) && a->kind == AK_ULT) ? "/timed" : "");
    }
    wl_actors_spawn(rt, RF.A, RF.n);
    /* every waiter is on the condition variable's list (white-box: the reference model of
     * M-waitlist), and stays there: nobody signals before we do */
    while (wb_waitlist_len(wlst) < RF.n)
        ABT_OK(ABT_thread_yield());
    ABT_cond h = RF.cv;
    int rc = ABT_cond_free(&h);
    SIM_CHECK(rc == ABT_ERR_COND, "cond:free-with-waiters", "ABT_cond_free of a condition variable with %d waiters returned %d, documented: ABT_ERR_COND (%d)", RF.n, rc, ABT_ERR_COND);
    SIM_CHECK(h == RF.cv, "cond:free-with-waiters", "the refused ABT_cond_free changed the handle");
    sim_progress();
    ABT_OK(ABT_mutex_lock(RF.m));
    RF.pred = 1;
    if (RF.n == 1 && plan_bool())
        ABT_OK(ABT_cond_signal(RF.cv));
    else
        ABT_OK(ABT_cond_broadcast(RF.cv));
    ABT_OK(ABT_mutex_unlock(RF.m));
    sim_progress();
    wl_actors_join(rt, RF.A, RF.n);
    SIM_CHECK(RF.returned == RF.n, "cond:wakeup-count", "%d of %d waiters returned after the broadcast", RF.returned, RF.n);
    sim_count("cond.frees_refused_because_of_waiters", 1);
    ABT_OK(ABT_cond_free(&RF.cv));
    ABT_OK(ABT_mutex_free(&RF.m));
    wl_rt_stop(rt);
}
SIM_WORKLOAD("C05", "rejected-free", run_c05_rejected_free, 2)

/* ---- scenario "many-sleepers": N external threads sleep in ABT_cond_wait (they all sleep on the
 * wait list's one futex word); one broadcast under the mutex releases every one of them, however
 * many there are.  N is mostly small; now and then 120..200. ---- */
static struct {
    wl_rt rt;
    ABT_mutex m;
    ABT_cond cv;
    int n;
    volatile int waiting, returned, pred;
} MS;
static void ms_waiter(void *arg)
{
    (void)arg;
    ABT_OK(ABT_mutex_lock(MS.m));
    MS.waiting++;
    sim_progress();
    while (!MS.pred)
        ABT_OK(ABT_cond_wait(MS.cv, MS.m));
    MS.returned++;
    ABT_OK(ABT_mutex_unlock(MS.m));
    sim_progress();
}
static void ms_diag(char *buf, int sz)
{
    snprintf(buf, (size_t)sz, "many-sleepers: n=%d waiting=%d returned=%d ", MS.n, MS.waiting, MS.returned);
}
static void run_c05_many_sleepers(void)
{
    memset(&MS, 0, sizeof MS);
    sim_set_diag_cb(ms_diag);
    wl_rt *rt = &MS.rt;
    wl_rt_start(rt, WL_RT_NO_TOPO2);
    ABT_OK(ABT_mutex_create(&MS.m));
    ABT_OK(ABT_cond_create(&MS.cv));
    const void *wlst = wb_cond_waitlist(MS.cv);
    int deep = plan_n(sim_tier() ? 120 : !strcmp(sim_variant(), "VP") ? 2000 : 150) == 0;
    MS.n = deep ? plan_range(120, 200) : plan_range(1, 8);
    sim_note("C05 many-sleepers n=%d: ", MS.n);
    static int tid[256];
    for (int i = 0; i < MS.n; i++)
        tid[i] = sim_thread_create(ms_waiter, NULL);
    /* all of them are on the list (white-box: the reference model of M-waitlist) */
    while (wb_waitlist_len(wlst) < MS.n)
        ABT_OK(ABT_thread_yield());
    ABT_OK(ABT_mutex_lock(MS.m));
    MS.pred = 1;
    ABT_OK(ABT_cond_broadcast(MS.cv));
    ABT_OK(ABT_mutex_unlock(MS.m));
    sim_progress();
    for (int i = 0; i < MS.n; i++)
        sim_thread_join(tid[i]);
    SIM_CHECK(MS.returned == MS.n, "cond:wakeup-count", "%d of %d sleeping waiters returned after the broadcast", MS.returned, MS.n);
    if (MS.n >= 120)
        sim_count("c05.broadcasts_to_more_than_100_sleepers", 1);
    ABT_OK(ABT_cond_free(&MS.cv));
    ABT_OK(ABT_mutex_free(&MS.m));
    wl_rt_stop(rt);
}
SIM_WORKLOAD("C05", "many-sleepers", run_c05_many_sleepers, 1)
