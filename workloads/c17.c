/* C17: execution-stream ranks are unique and the stream lifecycle is repeatable */
#include "wl_common.h"

/* ================================================================ ranks: linearizability */
#define MAXA 4
#define MAXOPS 24
#define MAXSTR 12
#define MAXRANK 20
enum { R_CREATE = 0, R_CREATE_RANK, R_SET_RANK, R_FREE, R_GET_NUM, R_N };
static const char *rn[] = { "create", "create_with_rank", "set_rank", "free", "get_num" };

typedef struct rop {
    uint64_t inv, ret;
    int actor, kind, stream, rank, ok, result;
} rop;

static struct {
    rop H[MAXOPS];
    int nh;
    ABT_xstream xs[MAXSTR];
    int owner[MAXSTR], live[MAXSTR], believed_rank[MAXSTR];
    int nstr;
    int nA;
    wl_actor A[MAXA];
    long nodes;
    volatile long holders, holders_done;
} R;

/* sequential model: used-rank bitmask + rank of each stream (-1: not live) */
typedef struct rstate {
    uint32_t used;
    signed char rank[MAXSTR];
} rstate;

static int rapply(const rop *o, rstate *s)
{
    switch (o->kind) {
        case R_CREATE: {
            int r = 0;
            while (s->used & (1u << r))
                r++;
            if (r != o->result)
                return 0;
            s->used |= 1u << r;
            s->rank[o->stream] = (signed char)r;
            return 1;
        }
        case R_CREATE_RANK: {
            int taken = (s->used >> o->rank) & 1;
            if (o->ok == taken)
                return 0; /* granted iff free */
            if (o->ok) {
                s->used |= 1u << o->rank;
                s->rank[o->stream] = (signed char)o->rank;
            }
            return 1;
        }
        case R_SET_RANK: {
            int cur = s->rank[o->stream];
            int taken = ((s->used >> o->rank) & 1) && cur != o->rank;
            if (o->ok == taken)
                return 0;
            if (o->ok) {
                s->used &= ~(1u << cur);
                s->used |= 1u << o->rank;
                s->rank[o->stream] = (signed char)o->rank;
            }
            return 1;
        }
        case R_FREE:
            s->used &= ~(1u << s->rank[o->stream]);
            s->rank[o->stream] = -1;
            return 1;
        case R_GET_NUM:
            return __builtin_popcount(s->used) == o->result;
    }
    return 0;
}

#define RMEMO (1u << 14)
static struct {
    uint32_t done;
    uint64_t h;
    unsigned gen;
} rmemo[RMEMO];
static unsigned rgen;

static uint64_t rhash(const rstate *s)
{
    uint64_t h = s->used * 0x9e3779b97f4a7c15ULL;
    for (int i = 0; i < MAXSTR; i++)
        h = (h ^ (uint64_t)(s->rank[i] + 2)) * 1099511628211ULL;
    return h;
}

static int rdfs(uint32_t done, const rstate *s)
{
    if (done == (1u << R.nh) - 1)
        return 1;
    if (++R.nodes > 2000000)
        return -1;
    uint64_t h = rhash(s);
    unsigned i = (unsigned)((done * 2654435761u) ^ (h >> 17)) % RMEMO;
    for (int n = 0; n < 32; n++, i = (i + 1) % RMEMO) {
        if (rmemo[i].gen != rgen) {
            rmemo[i].gen = rgen;
            rmemo[i].done = done;
            rmemo[i].h = h;
            break;
        }
        if (rmemo[i].done == done && rmemo[i].h == h)
            return 0;
    }
    uint64_t min_ret = ~0ULL;
    for (int k = 0; k < R.nh; k++)
        if (!(done & (1u << k)) && R.H[k].ret < min_ret)
            min_ret = R.H[k].ret;
    for (int k = 0; k < R.nh; k++) {
        if ((done & (1u << k)) || R.H[k].inv > min_ret)
            continue;
        rstate s2 = *s;
        if (!rapply(&R.H[k], &s2))
            continue;
        int r = rdfs(done | (1u << k), &s2);
        if (r)
            return r;
    }
    return 0;
}

static rop *rbegin(wl_actor *a, int kind, int stream, int rank)
{
    rop *o = &R.H[R.nh++];
    memset(o, 0, sizeof *o);
    o->actor = a->id;
    o->kind = kind;
    o->stream = stream;
    o->rank = rank;
    o->inv = sim_steps();
    o->ret = ~0ULL;
    return o;
}

static void check_own_ranks(wl_actor *a)
{
    for (int s = 0; s < R.nstr; s++)
        if (R.owner[s] == a->id && R.live[s]) {
            int r = -1;
            ABT_OK(ABT_xstream_get_rank(R.xs[s], &r));
            SIM_CHECK(r == R.believed_rank[s], "rank:changed-behind-owner", "stream %d reports rank %d, its owner set %d", s, r, R.believed_rank[s]);
            /* pairwise distinct among everything currently believed live */
            for (int t = 0; t < R.nstr; t++)
                if (t != s && R.live[t] && R.owner[t] == a->id)
                    SIM_CHECK(R.believed_rank[t] != r, "rank:duplicate", "streams %d and %d both have rank %d", s, t, r);
            SIM_CHECK(r != 0, "rank:duplicate", "stream %d got rank 0, which belongs to the primary stream", s);
        }
}

/* a unit that keeps a stream busy while its owner is already inside ABT_xstream_free: the stream
 * is alive until that call returns, so its rank is still taken */
static void holder_fn(void *arg)
{
    int s = (int)(long)arg;
    for (int k = 0; k < 6; k++) {
        int r = -1;
        ABT_OK(ABT_xstream_self_rank(&r));
        for (int t = 0; t < R.nstr; t++)
            if (t != s && R.live[t] && R.believed_rank[t] == r) {
                int rr = -1;
                ABT_OK(ABT_xstream_get_rank(R.xs[t], &rr));
                /* (still live after the read: its owner had not started to free it) */
                if (R.live[t] && rr == r)
                    sim_fail("rank:duplicate", "stream %d, whose ABT_xstream_free is waiting for the unit it still runs, and live stream %d both have rank %d", s, t, r);
            }
        ABT_OK(ABT_thread_yield());
    }
    R.holders_done++;
    sim_progress();
}

static void rank_body(wl_actor *a)
{
    for (int i = 0; i < a->nops; i++) {
        int kind = a->ops[i], arg = a->args[i];
        a->cur_op = i;
        /* streams owned by me */
        int mine[MAXSTR], nm = 0;
        for (int s = 0; s < R.nstr; s++)
            if (R.owner[s] == a->id && R.live[s])
                mine[nm++] = s;
        if ((kind == R_SET_RANK || kind == R_FREE) && nm == 0)
            kind = R_CREATE;
        if ((kind == R_CREATE || kind == R_CREATE_RANK) && (R.nstr >= MAXSTR || nm >= 3))
            kind = nm ? R_FREE : R_GET_NUM;
        if (R.nh >= MAXOPS - 1)
            break;
        switch (kind) {
            case R_CREATE: {
                int s = R.nstr++;
                R.owner[s] = a->id;
                rop *o = rbegin(a, R_CREATE, s, -1);
                ABT_OK(ABT_xstream_create(ABT_SCHED_NULL, &R.xs[s]));
                int r = -1;
                ABT_OK(ABT_xstream_get_rank(R.xs[s], &r));
                o->result = r;
                o->ok = 1;
                o->ret = sim_steps();
                SIM_CHECK(r >= 1 && r < MAXRANK, "rank:out-of-range", "new stream got rank %d", r);
                R.live[s] = 1;
                R.believed_rank[s] = r;
                break;
            }
            case R_CREATE_RANK: {
                int want = 1 + arg % 6;
                int s = R.nstr++;
                R.owner[s] = a->id;
                rop *o = rbegin(a, R_CREATE_RANK, s, want);
                int rc = ABT_xstream_create_with_rank(ABT_SCHED_NULL, want, &R.xs[s]);
                o->ok = rc == ABT_SUCCESS;
                o->ret = sim_steps();
                if (rc == ABT_SUCCESS) {
                    R.live[s] = 1;
                    R.believed_rank[s] = want;
                } else
                    SIM_CHECK(rc == ABT_ERR_INV_XSTREAM_RANK, "api-error", "ABT_xstream_create_with_rank returned %d", rc);
                break;
            }
            case R_SET_RANK: {
                int s = mine[arg % nm];
                int want = 1 + (arg >> 4) % 7;
                rop *o = rbegin(a, R_SET_RANK, s, want);
                int rc = ABT_xstream_set_rank(R.xs[s], want);
                o->ok = rc == ABT_SUCCESS;
                o->ret = sim_steps();
                if (rc == ABT_SUCCESS)
                    R.believed_rank[s] = want;
                else
                    SIM_CHECK(rc == ABT_ERR_INV_XSTREAM_RANK, "api-error", "ABT_xstream_set_rank returned %d", rc);
                break;
            }
            case R_FREE: {
                int s = mine[arg % nm];
                rop *o = rbegin(a, R_FREE, s, -1);
                R.live[s] = 0;
                if (arg & 1)
                    ABT_OK(ABT_xstream_join(R.xs[s]));
                else if ((arg & 6) == 2) {
                    ABT_pool mp;
                    ABT_OK(ABT_xstream_get_main_pools(R.xs[s], 1, &mp));
                    ABT_OK(ABT_thread_create(mp, holder_fn, (void *)(long)s, ABT_THREAD_ATTR_NULL, NULL));
                    R.holders++;
                }
                ABT_OK(ABT_xstream_free(&R.xs[s]));
                o->ok = 1;
                o->ret = sim_steps();
                break;
            }
            case R_GET_NUM: {
                rop *o = rbegin(a, R_GET_NUM, -1, -1);
                int n = -1;
                ABT_OK(ABT_xstream_get_num(&n));
                o->result = n;
                o->ok = 1;
                o->ret = sim_steps();
                break;
            }
        }
        sim_progress();
        check_own_ranks(a);
        if (arg & 512)
            wl_actor_pause(a, 1);
    }
}

static void run_c17_ranks(void)
{
    memset(&R, 0, sizeof R);
    wl_rt rt;
    wl_rt_start(&rt, WL_RT_PRIVATE_ONLY);
    /* the streams of the runtime topology are part of the history: they were created
     * sequentially before any actor started */
    uint32_t used0 = 0;
    for (int e = 0; e < rt.nes; e++) {
        int r = -1;
        ABT_OK(ABT_xstream_get_rank(rt.xs[e], &r));
        SIM_CHECK(r == e, "rank:initial", "stream %d created in sequence got rank %d", e, r);
        used0 |= 1u << r;
    }
    int n = plan_range(1, sim_limit("actors", MAXA));
    R.nA = n;
    int maxops = sim_limit("ops", 6);
    sim_note("C17 ranks nes0=%d actors=%d: ", rt.nes, n);
    for (int i = 0; i < n; i++) {
        wl_actor *a = &R.A[i];
        a->id = i;
        a->kind = plan_n(3) == 0 ? AK_EXT : AK_ULT;
        a->pool = (int)plan_n((uint32_t)rt.npools);
        a->body = rank_body;
        a->nops = plan_range(1, maxops);
        sim_note("[%s", wl_actor_kind_names[a->kind]);
        /* in some runs one actor does nothing but read the stream count, so that transient
         * states of the count during the others' creates and frees are looked at often */
        int poller = n >= 2 && i == n - 1 && plan_n(3) == 0;
        if (poller)
            a->nops = maxops;
        for (int j = 0; j < a->nops; j++) {
            a->ops[j] = poller ? R_GET_NUM : (int)plan_n(R_N);
            a->args[j] = (int)plan_n(1024);
            sim_note(" %s", rn[a->ops[j]]);
        }
        sim_note("] ");
    }
    wl_actors_spawn(&rt, R.A, n);
    wl_actors_join(&rt, R.A, n);
    SIM_CHECK(R.holders == R.holders_done, "join:returned-with-work-left", "%ld units were running on streams when ABT_xstream_free was called for them; %ld finished", R.holders, R.holders_done);
    sim_count("c17.streams_freed_while_running_a_unit", (uint64_t)R.holders);
    /* final count, then the history check */
    {
        wl_actor me = { .id = 99 };
        rop *o = rbegin(&me, R_GET_NUM, -1, -1);
        int num = -1;
        ABT_OK(ABT_xstream_get_num(&num));
        o->result = num;
        o->ok = 1;
        o->ret = sim_steps();
    }
    rstate s0;
    memset(&s0, 0, sizeof s0);
    s0.used = used0;
    for (int i = 0; i < MAXSTR; i++)
        s0.rank[i] = -1;
    rgen++;
    R.nodes = 0;
    int r = rdfs(0, &s0);
    if (r == 0) {
        static char hb[1200];
        int k = 0;
        for (int i = 0; i < R.nh && k < 1100; i++)
            k += snprintf(hb + k, sizeof hb - (size_t)k, "[%lu,%lu]a%d:%s(s%d,r%d)=%s%d ", (unsigned long)R.H[i].inv, (unsigned long)R.H[i].ret, R.H[i].actor, rn[R.H[i].kind], R.H[i].stream,
                          R.H[i].rank, R.H[i].ok ? "ok:" : "fail:", R.H[i].result);
        sim_fail("rank:not-linearizable", "history of %d rank operations (initial ranks %#x) has no linearization against the rank-allocator model: %s", R.nh, used0, hb);
    }
    sim_count(r < 0 ? "c17.lin_undecided" : "c17.lin_decided", 1);
    /* free what is left */
    for (int s = 0; s < R.nstr; s++)
        if (R.live[s]) {
            ABT_OK(ABT_xstream_join(R.xs[s]));
            ABT_OK(ABT_xstream_free(&R.xs[s]));
        }
    wl_rt_stop(&rt);
}
SIM_WORKLOAD("C17", "ranks", run_c17_ranks, 10)

/* ================================================================ lifecycle: join / revive / replace */
static volatile int L_done[8];
static void l_work(void *arg)
{
    int i = (int)(long)arg;
    ABT_OK(ABT_thread_yield());
    L_done[i]++;
    sim_progress();
}

static volatile int L_exit_calls;
static volatile int L_late;
static void l_late(void *arg)
{
    (void)arg;
    L_late++;
    sim_progress();
}
static volatile int L_release, L_stubborn_done, L_early_join_returned;
static void l_stubborn(void *arg)
{
    (void)arg;
    /* work that does not end by itself: only a stream that is told to terminate "even if work
     * remains" gets rid of it */
    while (!L_release) {
        ABT_OK(ABT_thread_yield());
        sim_progress();
    }
    L_stubborn_done++;
}
static void l_early_joiner(void *arg)
{
    ABT_OK(ABT_xstream_join(*(ABT_xstream *)arg));
    L_early_join_returned = 1;
    sim_progress();
}
static volatile int L_exit_joined;
static void l_exit_joiner(void *arg)
{
    ABT_OK(ABT_thread_join(*(ABT_thread *)arg));
    ABT_thread_state st;
    ABT_OK(ABT_thread_get_state(*(ABT_thread *)arg, &st));
    SIM_CHECK(st == ABT_THREAD_STATE_TERMINATED, "join:state-not-terminated", "the ULT that called ABT_xstream_exit is in state %d when its join returns", (int)st);
    L_exit_joined++;
    sim_progress();
}
static void l_exit(void *arg)
{
    int delay = (int)(long)arg;
    for (int i = 0; i < delay; i++)
        ABT_OK(ABT_thread_yield());
    L_exit_calls++;
    sim_progress();
    ABT_OK(ABT_xstream_exit());
    sim_fail("stream:exit", "ABT_xstream_exit returned");
}

static void run_work_on(ABT_pool pool, int k, const char *when)
{
    ABT_thread th[8];
    for (int i = 0; i < k; i++) {
        L_done[i] = 0;
        ABT_OK(ABT_thread_create(pool, l_work, (void *)(long)i, ABT_THREAD_ATTR_NULL, &th[i]));
    }
    for (int i = 0; i < k; i++) {
        ABT_OK(ABT_thread_free(&th[i]));
        SIM_CHECK(L_done[i] == 1, "stream:work-after-lifecycle-step", "unit %d did not run exactly once %s (ran %d times)", i, when, L_done[i]);
    }
}

static void run_c17_life(void)
{
    ABT_xstream xs;
    ABT_pool pool;
    wl_env_swarm();
    ABT_OK(ABT_init(0, NULL));
    static const ABT_sched_predef kinds[] = { ABT_SCHED_BASIC, ABT_SCHED_BASIC_WAIT, ABT_SCHED_PRIO, ABT_SCHED_RANDWS };
    static const ABT_pool_kind pk[] = { ABT_POOL_FIFO, ABT_POOL_FIFO_WAIT, ABT_POOL_RANDWS };
    int sk = (int)plan_n(4);
    int cycles = plan_range(1, sim_limit("cycles", 4));
    int k = plan_range(1, 4);
    /* the pool outlives scheduler replacements: not automatic */
    ABT_OK(ABT_pool_create_basic(pk[plan_n(3)], ABT_POOL_ACCESS_MPMC, ABT_FALSE, &pool));
    ABT_OK(ABT_xstream_create_basic(kinds[sk], 1, &pool, ABT_SCHED_CONFIG_NULL, &xs));
    sim_note("C17 lifecycle sched=%s cycles=%d units=%d: ", wl_sched_names[sk], cycles, k);
    int rank0 = -1;
    ABT_OK(ABT_xstream_get_rank(xs, &rank0));
    for (int c = 0; c < cycles; c++) {
        run_work_on(pool, k, c ? "after revive" : "on a fresh stream");
        int how = (int)plan_n(6); /* 0-2: plain join; 3: ABT_xstream_cancel; 4: a ULT calls ABT_xstream_exit; 5: ABT_sched_exit */
        if (how >= 3) {
            /* the stream is told to terminate although work is queued: it terminates (join
             * returns), what it did not run stays in the pool, and a revived stream runs it */
            static const char *hn[] = { "cancel", "exit", "sched_exit" };
            ABT_thread th[8], ex = ABT_THREAD_NULL, exj = ABT_THREAD_NULL, stub = ABT_THREAD_NULL;
            /* (ABT_sched_exit makes the scheduler function return, but a main scheduler's function is
             * entered again until the stream is cancelled or joined with empty pools: no unfinished
             * work with it) */
            int stubborn = how != 5 && plan_bool(), early = plan_n(3) == 0, ejtid = -1;
            sim_note("%s%s%s ", hn[how - 3], stubborn ? "+stubborn" : "", early && (stubborn || how == 4) ? "+early-join" : "");
            L_release = 0;
            L_stubborn_done = 0;
            L_early_join_returned = 0;
            if (stubborn)
                ABT_OK(ABT_thread_create(pool, l_stubborn, NULL, ABT_THREAD_ATTR_NULL, &stub));
            for (int i = 0; i < k; i++) {
                L_done[i] = 0;
                ABT_OK(ABT_thread_create(pool, l_work, (void *)(long)i, ABT_THREAD_ATTR_NULL, &th[i]));
            }
            if (how == 4)
                ABT_OK(ABT_thread_create(pool, l_exit, (void *)(long)plan_n(4), ABT_THREAD_ATTR_NULL, &ex));
            /* (a join alone ends the stream once its pools are empty, and a request to a stream
             * that is no longer running is undefined: an early joiner only where the stream cannot
             * end before the request -- unfinished work, or the request comes from its own ULT) */
            early = early && (stubborn || how == 4);
            if (early) {
                /* the join is (probably) registered before the request to terminate arrives */
                ejtid = sim_thread_create(l_early_joiner, &xs);
                for (int i = (int)plan_n(6); i > 0; i--)
                    ABT_OK(ABT_thread_yield());
                sim_count("c17.joins_registered_before_the_request", 1);
            }
            if (how == 3)
                ABT_OK(ABT_xstream_cancel(xs));
            else if (how == 4) {
                if (plan_bool()) {
                    /* somebody joins the ULT that ends its stream: released like any joiner */
                    ABT_xstream self;
                    ABT_pool mp;
                    ABT_OK(ABT_xstream_self(&self));
                    ABT_OK(ABT_xstream_get_main_pools(self, 1, &mp));
                    L_exit_joined = 0;
                    ABT_OK(ABT_thread_create(mp, l_exit_joiner, (void *)&ex, ABT_THREAD_ATTR_NULL, &exj));
                }
            } else {
                ABT_sched ms;
                ABT_OK(ABT_xstream_get_main_sched(xs, &ms));
                ABT_OK(ABT_sched_exit(ms));
            }
            if (early) {
                while (!L_early_join_returned)
                    ABT_OK(ABT_thread_yield());
                sim_thread_join(ejtid);
            } else
                ABT_OK(ABT_xstream_join(xs));
            if (stubborn)
                SIM_CHECK(L_stubborn_done == 0, "stream:work-after-lifecycle-step", "the unit that waits for a flag set after the join finished before the join returned");
            ABT_xstream_state st2;
            ABT_OK(ABT_xstream_get_state(xs, &st2));
            SIM_CHECK(st2 == ABT_XSTREAM_STATE_TERMINATED, "stream:not-terminated", "state %d after %s + join (cycle %d)", (int)st2, hn[how - 3], c);
            if (exj != ABT_THREAD_NULL) {
                ABT_OK(ABT_thread_free(&exj));
                SIM_CHECK(L_exit_joined == 1, "join:returned-before-termination", "the joiner of the ULT that called ABT_xstream_exit finished %d times", L_exit_joined);
                sim_count("c17.joins_of_a_ult_that_exits_its_stream", 1);
            }
            if (how == 4) {
                SIM_CHECK(L_exit_calls == 1, "stream:exit", "the ULT that calls ABT_xstream_exit ran %d times before the stream terminated", L_exit_calls);
                L_exit_calls = 0;
            }
            int left = 0;
            for (int i = 0; i < k; i++) {
                SIM_CHECK(L_done[i] <= 1, "stream:work-after-lifecycle-step", "unit %d ran %d times", i, L_done[i]);
                left += L_done[i] == 0;
            }
            sim_count("c17.units_left_by_terminated_stream", (uint64_t)left);
            sim_progress();
            ABT_OK(ABT_xstream_revive(xs));
            L_release = 1;
            if (stubborn) {
                ABT_OK(ABT_thread_free(&stub));
                SIM_CHECK(L_stubborn_done == 1, "stream:work-after-lifecycle-step", "the unit left behind by the terminated stream ran to its end %d times on the revived stream", L_stubborn_done);
                sim_count("c17.streams_terminated_with_unfinished_work", 1);
            }
            for (int i = 0; i < k; i++) {
                ABT_OK(ABT_thread_free(&th[i]));
                SIM_CHECK(L_done[i] == 1, "stream:work-after-lifecycle-step", "unit %d did not run exactly once across a %s and a revive (ran %d times)", i, hn[how - 3], L_done[i]);
            }
            if (ex != ABT_THREAD_NULL)
                ABT_OK(ABT_thread_free(&ex));
            sim_progress();
        }
        /* one more unit, unnamed, right before the join: the stream (idle by now, asleep in a
         * blocking pop if its scheduler waits) is woken by the push and asked to finish at almost
         * the same moment; the unit is work it has to finish first */
        int late = plan_bool();
        L_late = 0;
        if (late)
            ABT_OK(ABT_thread_create(pool, l_late, NULL, ABT_THREAD_ATTR_NULL, NULL));
        ABT_OK(ABT_xstream_join(xs));
        if (late) {
            SIM_CHECK(L_late == 1, "join:returned-before-units-finished", "ABT_xstream_join returned but the unnamed unit pushed right before it ran %d times", L_late);
            sim_count("c17.units_pushed_right_before_a_join", 1);
        }
        ABT_xstream_state st;
        ABT_OK(ABT_xstream_get_state(xs, &st));
        SIM_CHECK(st == ABT_XSTREAM_STATE_TERMINATED, "stream:not-terminated", "state %d after join (cycle %d)", (int)st, c);
        sim_progress();
        int what = (int)plan_n(3);
        if (what == 1) {
            /* replace the main scheduler of the joined stream */
            int nk = (int)plan_n(5);
            if (nk == 4)
                ABT_OK(ABT_xstream_set_main_sched(xs, wl_make_user_sched(1, &pool))); /* a user-defined scheduler */
            else
                ABT_OK(ABT_xstream_set_main_sched_basic(xs, kinds[nk], 1, &pool));
            sim_note("replace->%s ", wl_sched_names[nk]);
        }
        if (c + 1 < cycles) {
            ABT_OK(ABT_xstream_revive(xs));
            ABT_OK(ABT_xstream_get_state(xs, &st));
            SIM_CHECK(st == ABT_XSTREAM_STATE_RUNNING, "stream:not-running-after-revive", "state %d after revive", (int)st);
            int r = -1;
            ABT_OK(ABT_xstream_get_rank(xs, &r));
            SIM_CHECK(r == rank0, "rank:changed-by-revive", "rank %d after revive, was %d", r, rank0);
            sim_note("revive ");
            sim_progress();
            if (plan_bool()) {
                /* the revived stream finds nothing for a while (its scheduler polls empty pools
                 * and checks its events): it keeps running until it is joined again */
                int idle = plan_range(1, 600);
                for (int i = 0; i < idle; i++)
                    ABT_OK(ABT_thread_yield());
                ABT_OK(ABT_xstream_get_state(xs, &st));
                SIM_CHECK(st == ABT_XSTREAM_STATE_RUNNING, "stream:not-running-after-revive", "state %d some time after the revive of an idle stream", (int)st);
                sim_count("c17.revived_streams_left_idle", 1);
            }
        }
    }
    ABT_OK(ABT_xstream_free(&xs));
    if (plan_n(4) == 0) {
        /* ranks are integers of any size: a large rank is granted, is refused a second time, does
         * not alias the small rank it is congruent to modulo 2^16 or 2^8, and is reusable after
         * the free; the next automatic rank is still the smallest unused one */
        static const int bigs[] = { 255, 256, 65535, 65536, 65537, 70000, 1000000 };
        int big = bigs[plan_n(7)], r = -1, num = -1;
        ABT_xstream a, b, c = ABT_XSTREAM_NULL;
        ABT_OK(ABT_xstream_create_with_rank(ABT_SCHED_NULL, big, &a));
        ABT_OK(ABT_xstream_get_rank(a, &r));
        SIM_CHECK(r == big, "rank:changed-behind-owner", "a stream created with rank %d reports rank %d", big, r);
        int rc = ABT_xstream_create_with_rank(ABT_SCHED_NULL, big, &c);
        SIM_CHECK(rc == ABT_ERR_INV_XSTREAM_RANK, "rank:duplicate", "a second stream with rank %d: ABT_xstream_create_with_rank returned %d", big, rc);
        ABT_OK(ABT_xstream_create(ABT_SCHED_NULL, &b));
        ABT_OK(ABT_xstream_get_rank(b, &r));
        SIM_CHECK(r == 1, "rank:not-smallest-unused", "with ranks 0 and %d taken a new stream got rank %d", big, r);
        int small = big > 65536 ? big & 65535 : big > 256 ? big & 255 : 2;
        if (small < 2)
            small = 2;
        rc = ABT_xstream_set_rank(b, small);
        SIM_CHECK(rc == ABT_SUCCESS, "rank:refused-although-free", "ABT_xstream_set_rank(%d) with ranks 0, 1 (its own) and %d taken returned %d", small, big, rc);
        ABT_OK(ABT_xstream_get_num(&num));
        SIM_CHECK(num == 3, "rank:num", "ABT_xstream_get_num = %d with 3 streams", num);
        ABT_OK(ABT_xstream_join(a));
        ABT_OK(ABT_xstream_free(&a));
        ABT_OK(ABT_xstream_set_rank(b, big)); /* reusable after the free */
        ABT_OK(ABT_xstream_get_rank(b, &r));
        SIM_CHECK(r == big, "rank:changed-behind-owner", "ABT_xstream_set_rank(%d) succeeded but the stream reports rank %d", big, r);
        ABT_OK(ABT_xstream_join(b));
        ABT_OK(ABT_xstream_free(&b));
        sim_count("c17.large_ranks", 1);
        sim_note("big-rank%d ", big);
    }
    /* replacing the main scheduler of the caller's own stream keeps the caller running */
    if (plan_bool()) {
        ABT_xstream self;
        ABT_pool np;
        ABT_OK(ABT_xstream_self(&self));
        ABT_OK(ABT_pool_create_basic(pk[plan_n(3)], ABT_POOL_ACCESS_MPMC, ABT_TRUE, &np));
        int nk = (int)plan_n(5);
        if (nk == 4)
            ABT_OK(ABT_xstream_set_main_sched(self, wl_make_user_sched(1, &np)));
        else
            ABT_OK(ABT_xstream_set_main_sched_basic(self, kinds[nk], 1, &np));
        sim_note("self-replace->%s ", wl_sched_names[nk]);
        sim_progress();
        run_work_on(np, k, "after replacing the caller's own main scheduler");
    }
    ABT_OK(ABT_pool_free(&pool));
    ABT_OK(ABT_finalize());
    sim_ledger_check_empty("after ABT_finalize");
}
SIM_WORKLOAD("C17", "lifecycle", run_c17_life, 5)
/* C06: a join of a revived stream waits for the work pushed since the revive as the first join did */
static void run_c06_life(void)
{
    run_c17_life();
}
SIM_WORKLOAD("C06", "revive-lifecycle", run_c06_life, 2)
/* C03: the joiner of a ULT that terminates through ABT_xstream_exit is released */
static void run_c03_life(void)
{
    run_c17_life();
}
SIM_WORKLOAD("C03", "exit-of-a-stream", run_c03_life, 1)
/* C19: the blocking pop of a waiting scheduler does not lose the unit whose push woke it */
static void run_c19_life(void)
{
    run_c17_life();
}
SIM_WORKLOAD("C19", "push-then-join", run_c19_life, 2)
