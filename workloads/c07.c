/* C07: built-in pools are linearizable queues: each pushed unit is popped exactly once
 * C19 (second half): blocking pops never lose a unit pushed while they wait and return
 * empty-handed in bounded time */
#include "wl_common.h"
#include "lin.h"

#define MAXTOK 12
#define MAXCL 4
enum { O_PUSH1 = 0, O_PUSHN, O_POP1, O_POPN, O_POPW, O_POPTW, O_REMOVE, O_LEGACY_PUSH, O_LEGACY_POP, O_PRINT, O_N };
static const char *on[] = { "push", "pushN", "pop", "popN", "pop_wait", "pop_timedwait", "remove", "push(unit)", "pop(unit)", "print" };

typedef struct client {
    int id, can_push, can_pop, can_remove;
    int nops, ops[10], args[10];
    int held[MAXTOK], nheld;
    volatile int done;
    int simtid;
} client;

static struct {
    ABT_pool pool, park;
    int kind, access;
    ABT_thread tok[MAXTOK];
    int ntok;
    int owner[MAXTOK];       /* client holding the token, -1: in the pool (or being pushed) */
    int push_done[MAXTOK];   /* the push of the token has returned */
    uint64_t push_time[MAXTOK]; /* virtual time at which the latest push of the token was invoked / returned */
    int far_waits;           /* this run uses waits with a deadline nobody should ever reach */
    long far_waits_done, empty_wait_checks;
    client C[MAXCL];
    int ncl;
    lin_op H[LIN_MAX_OPS];
    int nh;
    long pushed, popped, empty_pops, waits_got, waits_empty, removes_ok, removes_refused, prints;
    int multi_consumer;
    int ran[MAXTOK];
} S;

static void token_fn(void *arg)
{
    int i = (int)(long)arg;
    S.ran[i]++;
}

static int tok_index(ABT_thread th)
{
    for (int i = 0; i < S.ntok; i++)
        if (S.tok[i] == th)
            return i;
    return -1;
}

static lin_op *hbegin(client *c, int kind, int end, int max)
{
    if (S.nh >= LIN_MAX_OPS)
        sim_fail("infra:history-overflow", "history too long");
    lin_op *o = &S.H[S.nh++];
    memset(o, 0, sizeof *o);
    o->client = c->id;
    o->kind = kind;
    o->end = end;
    o->max = max;
    o->inv = sim_steps();
    o->ret = ~0ULL;
    return o;
}
static void hend(lin_op *o)
{
    o->ret = sim_steps();
    sim_progress();
}

static void got_token(client *c, lin_op *o, ABT_thread th, const char *api)
{
    int t = tok_index(th);
    SIM_CHECK(t >= 0, "pool:pop-unknown-unit", "%s returned a handle that is not one of the pushed units", api);
    SIM_CHECK(S.owner[t] == -1, "pool:unit-popped-twice", "%s by client %d returned unit %d which is held by client %d (popped twice / never pushed)", api, c->id, t, S.owner[t]);
    S.owner[t] = c->id;
    S.push_done[t] = 0;
    c->held[c->nheld++] = t;
    o->tok[o->ntok++] = t;
    S.popped++;
}

/* A wait with a deadline a million virtual seconds away can only end early: by a unit.  If it
 * comes back with a unit when the deadline has passed, although that unit's push had returned
 * ages before, the waiter slept through the push (the wake-up was lost) and was rescued by its
 * time-out.  (No clock-jump faults in runs that use such waits.) */
#define FAR_WAIT_NS 1000000000000000ULL
static void far_wait_check(client *c, int t, uint64_t deadline, const char *api)
{
    uint64_t now = sim_now_ns();
    S.far_waits_done++;
    SIM_CHECK(!(now >= deadline && S.push_time[t] + FAR_WAIT_NS / 2 < deadline), "pool:slept-through-push",
              "%s of client %d returned unit %d only when its deadline had passed (%.0f virtual seconds after the push of that unit had returned)", api, c->id, t,
              (double)(now - S.push_time[t]) * 1e-9);
}

/* A blocking pop of a FIFO_WAIT pool sleeps on the pool's condition variable; every push signals
 * it under the pool's mutex.  With a single consumer and without injected spurious wake-ups or
 * clock jumps such a pop can come back empty-handed only through its time-out, i.e. after a look
 * at the queue at or after its deadline: a unit whose push had returned before the deadline and
 * that nobody else can have taken must have been found ("never loses a unit pushed while it
 * waits").  deadline_lo is a lower bound of the deadline the library computed. */
static void missed_push_check(client *c, uint64_t deadline_lo, const char *api)
{
    if (S.kind != 1 || S.multi_consumer || sim_faults_enabled())
        return;
    S.empty_wait_checks++;
    for (int t = 0; t < S.ntok; t++)
        if (S.owner[t] == -1 && S.push_done[t] && S.push_time[t] + 2000 < deadline_lo)
            sim_fail("pool:blocking-pop-missed-push",
                     "%s of client %d (the only consumer) returned empty-handed at %lu ns although the push of unit %d had returned at %lu ns, before the pop's deadline (>= %lu ns), and the unit is still in the pool",
                     api, c->id, (unsigned long)sim_now_ns(), t, (unsigned long)S.push_time[t], (unsigned long)deadline_lo);
}

/* "returns empty-handed in bounded time when the pool stays empty": virtual time moves by at
 * most a millisecond per step (5*10^4 s over the longest possible run) unless it jumps to the
 * next timer, so a blocking pop that comes back empty 10^5 virtual seconds after its deadline
 * waited on a timer that was set wrongly.  Not in runs with far-deadline waits, whose timers
 * the clock may legitimately jump to. */
static void late_return_check(client *c, uint64_t deadline_hi, const char *api)
{
    if (S.far_waits)
        return;
    uint64_t now = sim_now_ns();
    SIM_CHECK(now < deadline_hi + 100000ULL * 1000000000ULL, "pool:blocking-pop-overslept",
              "%s of client %d returned empty-handed %.0f virtual seconds after its deadline", api, c->id, (double)(now - deadline_hi) * 1e-9);
}

static int push_end(int arg)
{
    /* RANDWS: creation-type contexts push to the head, everything else to the tail */
    return (S.kind == 2 && (arg & 1)) ? LIN_HEAD : LIN_TAIL;
}
static int pop_end(int arg)
{
    return (S.kind == 2 && (arg & 2)) ? LIN_TAIL : LIN_HEAD;
}

/* ABT_pool_print_all_threads: a read-only walk over the pool */
typedef struct {
    int n, seen[MAXTOK], foreign;
} print_rec;
static void print_cb(void *arg, ABT_thread th)
{
    print_rec *pr = (print_rec *)arg;
    int t = -1;
    for (int i = 0; i < S.ntok; i++)
        if (S.tok[i] == th)
            t = i;
    if (t < 0)
        pr->foreign++;
    else
        pr->seen[t]++;
    pr->n++;
}

static void print_unit_cb(void *arg, ABT_unit unit)
{
    ABT_thread th = ABT_THREAD_NULL;
    ABT_OK(ABT_unit_get_thread(unit, &th));
    print_cb(arg, th);
}

static void do_op(client *c, int op, int arg)
{
    ABT_pool_context pushctx = push_end(arg) == LIN_HEAD ? ABT_POOL_CONTEXT_OP_THREAD_CREATE : ABT_POOL_CONTEXT_OP_POOL_OTHER;
    ABT_pool_context popctx = pop_end(arg) == LIN_TAIL ? ABT_POOL_CONTEXT_OWNER_SECONDARY : ABT_POOL_CONTEXT_OWNER_PRIMARY;
    /* adapt to what the client can do right now */
    if ((op == O_PUSH1 || op == O_PUSHN || op == O_LEGACY_PUSH) && (!c->can_push || c->nheld == 0))
        op = c->can_pop ? O_POP1 : -1;
    if ((op == O_POP1 || op == O_POPN || op == O_POPW || op == O_POPTW || op == O_LEGACY_POP) && !c->can_pop)
        op = (c->can_push && c->nheld) ? O_PUSH1 : -1;
    if (op == O_REMOVE) {
        int found = -1;
        if (c->can_remove)
            for (int t = 0; t < S.ntok; t++)
                if (S.owner[t] == -1 && S.push_done[t])
                    found = t;
        if (found < 0)
            op = c->can_pop ? O_POP1 : -1;
        else
            arg = found;
    }
    if (op == O_PRINT && !c->can_pop)
        op = -1;
    if (op < 0)
        return;
    switch (op) {
        case O_PRINT: {
            /* looking at the pool changes nothing (the operations that follow find it as it
             * was); the walk shows units of the pool only, each once; when the caller is the only
             * client, exactly the units that are inside */
            print_rec PR;
            memset(&PR, 0, sizeof PR);
            int rc = (arg & 1) ? ABT_pool_print_all(S.pool, &PR, print_unit_cb) : ABT_pool_print_all_threads(S.pool, &PR, print_cb);
            SIM_CHECK(rc == ABT_SUCCESS, "pool:print", "ABT_pool_print_all_threads returned %d", rc);
            SIM_CHECK(PR.foreign == 0, "pool:print", "ABT_pool_print_all_threads showed %d handles that were never pushed to the pool", PR.foreign);
            for (int t = 0; t < S.ntok; t++) {
                SIM_CHECK(PR.seen[t] <= 1, "pool:print", "ABT_pool_print_all_threads showed unit %d %d times", t, PR.seen[t]);
                if (S.ncl == 1)
                    SIM_CHECK(PR.seen[t] == (S.owner[t] == -1), "pool:print", "ABT_pool_print_all_threads %s unit %d, which is %s the pool", PR.seen[t] ? "showed" : "did not show", t,
                              S.owner[t] == -1 ? "in" : "not in");
            }
            S.prints++;
            break;
        }
        case O_PUSH1:
        case O_LEGACY_PUSH: {
            int t = c->held[--c->nheld];
            lin_op *o = hbegin(c, LIN_PUSH, op == O_LEGACY_PUSH ? LIN_TAIL : push_end(arg), 0);
            o->tok[o->ntok++] = t;
            S.owner[t] = -1;
            S.pushed++;
            S.push_time[t] = sim_now_ns(); /* from now on a waiter may receive it */
            if (op == O_LEGACY_PUSH) {
                ABT_unit u;
                ABT_OK(ABT_thread_get_unit(S.tok[t], &u));
                ABT_OK(ABT_pool_push(S.pool, u));
            } else if (arg & 4)
                ABT_OK(ABT_pool_push_thread(S.pool, S.tok[t]));
            else
                ABT_OK(ABT_pool_push_thread_ex(S.pool, S.tok[t], pushctx));
            if (op != O_LEGACY_PUSH && (arg & 4))
                o->end = LIN_TAIL; /* the plain variant uses the default context */
            S.push_done[t] = 1;
            S.push_time[t] = sim_now_ns();
            hend(o);
            break;
        }
        case O_PUSHN: {
            int k = 2 + (arg >> 3) % 2;
            if (k > c->nheld)
                k = c->nheld;
            ABT_thread ths[4];
            lin_op *o = hbegin(c, LIN_PUSH, push_end(arg), 0);
            int ts[4];
            for (int i = 0; i < k; i++) {
                int t = c->held[--c->nheld];
                ts[i] = t;
                ths[i] = S.tok[t];
                o->tok[o->ntok++] = t;
                S.owner[t] = -1;
                S.pushed++;
                S.push_time[t] = sim_now_ns();
            }
            ABT_OK(ABT_pool_push_threads_ex(S.pool, ths, (size_t)k, pushctx));
            for (int i = 0; i < k; i++) {
                S.push_done[ts[i]] = 1;
                S.push_time[ts[i]] = sim_now_ns();
            }
            hend(o);
            break;
        }
        case O_POP1:
        case O_LEGACY_POP: {
            lin_op *o = hbegin(c, LIN_POP, op == O_LEGACY_POP ? LIN_HEAD : pop_end(arg), 1);
            ABT_thread th = ABT_THREAD_NULL;
            if (op == O_LEGACY_POP) {
                ABT_unit u = ABT_UNIT_NULL;
                ABT_OK(ABT_pool_pop(S.pool, &u));
                if (u != ABT_UNIT_NULL)
                    ABT_OK(ABT_unit_get_thread(u, &th));
            } else if (arg & 4) {
                ABT_OK(ABT_pool_pop_thread(S.pool, &th));
                o->end = LIN_HEAD;
            } else
                ABT_OK(ABT_pool_pop_thread_ex(S.pool, &th, popctx));
            if (th != ABT_THREAD_NULL)
                got_token(c, o, th, on[op]);
            else
                S.empty_pops++;
            hend(o);
            break;
        }
        case O_POPN: {
            int k = 2 + (arg >> 3) % 2;
            lin_op *o = hbegin(c, LIN_POP, pop_end(arg), k);
            ABT_thread ths[4] = { ABT_THREAD_NULL, ABT_THREAD_NULL, ABT_THREAD_NULL, ABT_THREAD_NULL };
            size_t got = 0;
            ABT_OK(ABT_pool_pop_threads_ex(S.pool, ths, (size_t)k, &got, popctx));
            SIM_CHECK(got <= (size_t)k, "pool:pop-many-overflow", "pop_threads returned %zu units for a request of %d", got, k);
            for (size_t i = 0; i < got; i++)
                got_token(c, o, ths[i], "pop_threads");
            if (!got)
                S.empty_pops++;
            hend(o);
            break;
        }
        case O_POPW: {
            lin_op *o = hbegin(c, LIN_POP, pop_end(arg), 1);
            double secs = (double)sim_quantum_ns() * 1e-9 * (double)(3 + (arg >> 3) % 300);
            if ((arg >> 3) % 7 == 0)
                secs = 0.0;
            int far = S.far_waits && (arg >> 3) % 5 == 1;
            uint64_t deadline = 0;
            if (far) {
                secs = FAR_WAIT_NS * 1e-9;
                deadline = sim_now_ns() + FAR_WAIT_NS;
            }
            ABT_thread th = ABT_THREAD_NULL;
            uint64_t dl_lo = sim_now_ns() + (uint64_t)(secs * 1e9);
            int flavour = (arg >> 11) % 3; /* the three public spellings of a waiting pop */
            if (flavour == 0)
                ABT_OK(ABT_pool_pop_wait_thread_ex(S.pool, &th, secs, popctx));
            else if (flavour == 1) {
                o->end = LIN_HEAD; /* default context */
                ABT_OK(ABT_pool_pop_wait_thread(S.pool, &th, secs));
            } else {
                ABT_unit u = ABT_UNIT_NULL;
                o->end = LIN_HEAD;
                ABT_OK(ABT_pool_pop_wait(S.pool, &u, secs));
                if (u != ABT_UNIT_NULL)
                    ABT_OK(ABT_unit_get_thread(u, &th));
            }
            if (th != ABT_THREAD_NULL) {
                got_token(c, o, th, "pop_wait_thread");
                if (far)
                    far_wait_check(c, tok_index(th), deadline, "ABT_pool_pop_wait_thread");
                S.waits_got++;
            } else {
                S.waits_empty++;
                missed_push_check(c, dl_lo, "ABT_pool_pop_wait");
                late_return_check(c, dl_lo + 1000000000ULL, "ABT_pool_pop_wait");
            }
            hend(o);
            break;
        }
        case O_POPTW: {
            lin_op *o = hbegin(c, LIN_POP, LIN_HEAD, 1);
            uint64_t t_call = sim_now_ns();
            double abst = (double)(sim_now_ns() + sim_quantum_ns() * (uint64_t)(3 + (arg >> 3) % 300)) * 1e-9;
            int far = S.far_waits && (arg >> 3) % 5 == 1;
            uint64_t deadline = 0;
            if (far) {
                deadline = sim_now_ns() + FAR_WAIT_NS;
                abst = (double)deadline * 1e-9;
            } else if ((arg >> 3) % 7 == 0)
                abst = (arg >> 6) & 1 ? 0.0 : (double)sim_now_ns() * 1e-9 - 1.0; /* a deadline that has passed: "do not wait" */
            ABT_unit u = ABT_UNIT_NULL;
            ABT_OK(ABT_pool_pop_timedwait(S.pool, &u, abst));
            if (u != ABT_UNIT_NULL) {
                ABT_thread th;
                ABT_OK(ABT_unit_get_thread(u, &th));
                got_token(c, o, th, "pop_timedwait");
                if (far)
                    far_wait_check(c, tok_index(th), deadline, "ABT_pool_pop_timedwait");
                S.waits_got++;
            } else {
                S.waits_empty++;
                missed_push_check(c, (uint64_t)(abst * 1e9), "ABT_pool_pop_timedwait");
                late_return_check(c, (uint64_t)(abst * 1e9) > t_call ? (uint64_t)(abst * 1e9) : t_call, "ABT_pool_pop_timedwait");
            }
            hend(o);
            break;
        }
        case O_REMOVE: {
            int t = arg;
            lin_op *o = hbegin(c, LIN_REMOVE, LIN_HEAD, 0);
            o->tok[o->ntok++] = t;
            ABT_unit u;
            ABT_OK(ABT_thread_get_unit(S.tok[t], &u));
            int rc = ABT_pool_remove(S.pool, u);
            if (rc == ABT_SUCCESS) {
                o->max = 1;
                SIM_CHECK(S.owner[t] == -1, "pool:unit-popped-twice", "unit %d removed while held by client %d", t, S.owner[t]);
                S.owner[t] = c->id;
                S.push_done[t] = 0;
                c->held[c->nheld++] = t;
                S.popped++;
                S.removes_ok++;
            } else {
                /* refused: legitimate only if another consumer may have taken the unit meanwhile */
                SIM_CHECK(S.multi_consumer, "pool:remove-failed", "ABT_pool_remove of unit %d returned %d although the unit is in the pool and nobody else can take it out", t, rc);
                S.removes_refused++;
            }
            hend(o);
            break;
        }
    }
}

static void client_main(void *arg)
{
    client *c = (client *)arg;
    for (int i = 0; i < c->nops; i++) {
        do_op(c, c->ops[i], c->args[i]);
        if (c->args[i] & 512)
            sim_yield();
    }
    c->done = 1;
    sim_progress();
}

static void run_pool(int wait_heavy)
{
    memset(&S, 0, sizeof S);
    wl_env_swarm();
    ABT_OK(ABT_init(0, NULL));
    S.far_waits = wait_heavy && plan_bool();
    sim_allow_faults((1u << SIM_F_COND_SPURIOUS) | (1u << SIM_F_NANOSLEEP_EARLY) | (S.far_waits ? 0 : (1u << SIM_F_CLOCK_JUMP)) | (1u << SIM_F_STALL) | (1u << SIM_F_SLOW_NODE) |
                     (1u << SIM_F_TARGET_DELAY));
    static const ABT_pool_kind kinds[] = { ABT_POOL_FIFO, ABT_POOL_FIFO_WAIT, ABT_POOL_RANDWS };
    static const ABT_pool_access accs[] = { ABT_POOL_ACCESS_PRIV, ABT_POOL_ACCESS_SPSC, ABT_POOL_ACCESS_MPSC, ABT_POOL_ACCESS_SPMC, ABT_POOL_ACCESS_MPMC };
    static const char *an[] = { "PRIV", "SPSC", "MPSC", "SPMC", "MPMC" };
    S.kind = (int)plan_n(3);
    S.access = (int)plan_n(10);
    S.access = S.access < 1 ? 0 : S.access < 2 ? 1 : S.access < 4 ? 2 : S.access < 6 ? 3 : 4;
    /* far waits only where a wait is one sleep on a condition variable (FIFO_WAIT); the other
     * kinds poll, and a poller that sleeps between two polls with a unit present is normal */
    if (S.kind != 1)
        S.far_waits = 0;
    ABT_OK(ABT_pool_create_basic(kinds[S.kind], accs[S.access], ABT_FALSE, &S.pool));
    ABT_OK(ABT_pool_create_basic(ABT_POOL_FIFO, ABT_POOL_ACCESS_MPMC, ABT_FALSE, &S.park));
    S.ntok = plan_range(1, sim_limit("tokens", 10));
    for (int i = 0; i < S.ntok; i++) {
        ABT_OK(ABT_thread_create(S.park, token_fn, (void *)(long)i, ABT_THREAD_ATTR_NULL, &S.tok[i]));
        ABT_thread th;
        ABT_OK(ABT_pool_pop_thread(S.park, &th));
        SIM_CHECK(th == S.tok[i], "pool:park", "parking pool returned another unit");
    }
    int maxcl = sim_limit("clients", MAXCL);
    int np, nc, both = 0;
    switch (S.access) {
        case 0:
            np = 0;
            nc = 0;
            both = 1;
            break;
        case 1:
            np = 1;
            nc = 1;
            break;
        case 2:
            np = plan_range(1, maxcl - 1 < 1 ? 1 : maxcl - 1);
            nc = 1;
            break;
        case 3:
            np = 1;
            nc = plan_range(1, maxcl - 1 < 1 ? 1 : maxcl - 1);
            break;
        default:
            np = 0;
            nc = 0;
            both = plan_range(2, maxcl < 2 ? 2 : maxcl);
            break;
    }
    S.ncl = np + nc + both;
    int maxops = sim_limit("ops", 8);
    sim_note("%s pool=%s/%s tokens=%d clients: ", wait_heavy ? "C19 pool-wait" : "C07", wl_pool_names[S.kind], an[S.access], S.ntok);
    for (int i = 0; i < S.ncl; i++) {
        client *c = &S.C[i];
        c->id = i;
        c->can_push = both || i < np;
        c->can_pop = both || i >= np;
        /* remove: by the only consumer for a unit that is certainly in the pool, or racing with
         * the other consumers' pops (it is then refused when the unit is gone) */
        c->can_remove = c->can_pop;
        S.multi_consumer = (both + nc) > 1;
        c->nops = plan_range(1, maxops);
        sim_note("[%s%s", c->can_push ? "P" : "", c->can_pop ? "C" : "");
        for (int j = 0; j < c->nops; j++) {
            int r = (int)plan_n(100);
            int op;
            if (wait_heavy)
                op = r < 35 ? O_PUSH1 : r < 45 ? O_PUSHN : r < 75 ? O_POPW : r < 90 ? O_POPTW : r < 96 ? O_POP1 : O_PRINT;
            else
                op = r < 25 ? O_PUSH1 : r < 35 ? O_PUSHN : r < 55 ? O_POP1 : r < 65 ? O_POPN : r < 73 ? O_POPW : r < 78 ? O_POPTW : r < 86 ? O_REMOVE : r < 92 ? O_LEGACY_PUSH : r < 97 ? O_LEGACY_POP : O_PRINT;
            c->ops[j] = op;
            c->args[j] = (int)plan_n(1 << 14);
            sim_note(" %s", on[op]);
        }
        sim_note("] ");
    }
    /* hand the tokens to the producers */
    for (int t = 0; t < S.ntok; t++) {
        int who;
        do
            who = (int)plan_n((uint32_t)S.ncl);
        while (!S.C[who].can_push);
        S.owner[t] = who;
        S.C[who].held[S.C[who].nheld++] = t;
    }
    if (S.access == 0) {
        /* a private pool is used by the stream that owns it: the primary ULT is the client */
        client_main(&S.C[0]);
    } else {
        for (int i = 0; i < S.ncl; i++)
            S.C[i].simtid = sim_thread_create(client_main, &S.C[i]);
        for (int i = 0; i < S.ncl; i++) {
            /* the clients are external threads working on a pool no stream serves and the
             * primary stream has nothing to run, so the primary may simply block in the join
             * (a yield-polling primary never looks idle, and virtual time could then not jump
             * to the deadline of a far wait) */
            if (!S.far_waits)
                while (!S.C[i].done)
                    ABT_OK(ABT_thread_yield());
            sim_thread_join(S.C[i].simtid);
        }
    }
    /* quiescent: size and emptiness are exact */
    size_t sz = 0;
    ABT_bool empty = ABT_FALSE;
    ABT_OK(ABT_pool_get_size(S.pool, &sz));
    ABT_OK(ABT_pool_is_empty(S.pool, &empty));
    long expect = S.pushed - S.popped;
    SIM_CHECK((long)sz == expect, "pool:size-at-quiescence", "ABT_pool_get_size = %zu but %ld units were pushed and not popped", sz, expect);
    SIM_CHECK((empty == ABT_TRUE) == (expect == 0), "pool:empty-at-quiescence", "ABT_pool_is_empty = %d with %ld units inside", (int)empty, expect);
    /* history check */
    {
        lin_op *o = &S.H[S.nh++];
        memset(o, 0, sizeof *o);
        o->client = 99;
        o->kind = LIN_SIZE;
        o->max = (int)sz;
        o->inv = sim_steps();
        o->ret = sim_steps() + 1;
        /* SIZE is ordered after everything else */
        for (int i = 0; i < S.nh - 1; i++)
            if (S.H[i].ret >= o->inv)
                o->inv = S.H[i].ret + 1, o->ret = o->inv + 1;
    }
    int fin = -1;
    int r = lin_check(S.H, S.nh, 1000000, &fin);
    if (r == 0) {
        static char hb[1100];
        lin_format(S.H, S.nh, hb, sizeof hb);
        sim_fail("pool:not-linearizable", "history of %d operations on a %s/%s pool has no linearization as a %s: %s", S.nh, wl_pool_names[S.kind], an[S.access],
                 S.kind == 2 ? "double-ended queue" : "FIFO queue", hb);
    }
    sim_count(r < 0 ? "lin.undecided" : "lin.decided", 1);
    sim_count("pool.empty_pops", (uint64_t)S.empty_pops);
    sim_count("pool.blocking_pop_got_unit", (uint64_t)S.waits_got);
    sim_count("pool.blocking_pop_empty", (uint64_t)S.waits_empty);
    sim_count("pool.removes_ok", (uint64_t)S.removes_ok);
    sim_count("pool.far_waits_that_got_a_unit", (uint64_t)S.far_waits_done);
    sim_count("pool.empty_blocking_pops_checked", (uint64_t)S.empty_wait_checks);
    sim_count("pool.removes_refused_unit_gone", (uint64_t)S.removes_refused);
    sim_count("pool.print_walks", (uint64_t)S.prints);
    /* drain, then let every token run so that it can be freed */
    for (;;) {
        ABT_thread th = ABT_THREAD_NULL;
        ABT_OK(ABT_pool_pop_thread(S.pool, &th));
        if (th == ABT_THREAD_NULL)
            break;
        int t = tok_index(th);
        SIM_CHECK(t >= 0 && S.owner[t] == -1, "pool:unit-popped-twice", "drain returned unit %d held by client %d", t, t >= 0 ? S.owner[t] : -2);
        S.owner[t] = 100;
        expect--;
    }
    SIM_CHECK(expect == 0, "pool:lost-unit", "%ld pushed units were never returned by a pop", expect);
    ABT_xstream xs;
    ABT_pool mainp;
    ABT_OK(ABT_xstream_self(&xs));
    ABT_OK(ABT_xstream_get_main_pools(xs, 1, &mainp));
    for (int t = 0; t < S.ntok; t++) {
        SIM_CHECK(S.owner[t] != -1, "pool:lost-unit", "unit %d is neither in the pool nor held by anybody", t);
        ABT_OK(ABT_thread_set_associated_pool(S.tok[t], mainp));
        ABT_OK(ABT_pool_push_thread(mainp, S.tok[t]));
    }
    for (int t = 0; t < S.ntok; t++) {
        ABT_OK(ABT_thread_free(&S.tok[t]));
        SIM_CHECK(S.ran[t] == 1, "pool:token-ran", "token %d ran %d times", t, S.ran[t]);
    }
    ABT_OK(ABT_pool_free(&S.pool));
    ABT_OK(ABT_pool_free(&S.park));
    ABT_OK(ABT_finalize());
    sim_ledger_check_empty("after ABT_finalize");
}

static void run_c07(void)
{
    run_pool(0);
}
static void run_c19_pool(void)
{
    run_pool(1);
}
SIM_WORKLOAD("C07", "pool-lin", run_c07, 10)
SIM_WORKLOAD("C19", "pool-wait", run_c19_pool, 5)

/* ---- scenario "big-batch": one ABT_pool_push_threads call with more units than any internal
 * buffer holds (65..100) is still one queue operation.  While producer A pushes the batch,
 * producer B pushes a single unit and consumer C pops with a bound larger than everything.
 * Afterwards the pool is drained.  Reading C's results and the drain as the queue order: the
 * batch is contiguous and in order (B's unit sits before or after it, never inside), and every
 * pop returned 0, 1 (B's unit), N or N+1 units, never a part of the batch. ---- */
#define BB_MAX 104
static struct {
    ABT_pool pool, park;
    int n; /* batch size */
    ABT_thread tok[BB_MAX];
    int order[BB_MAX + 8], norder;
    int pops[4], npops;
    volatile int go, done;
    int kind;
} BB;
static int bb_index(ABT_thread th)
{
    for (int i = 0; i <= BB.n; i++)
        if (BB.tok[i] == th)
            return i;
    return -1;
}
static void bb_a(void *arg)
{
    (void)arg;
    while (!BB.go)
        sim_yield();
    if (BB.kind & 1)
        ABT_OK(ABT_pool_push_threads(BB.pool, BB.tok, (size_t)BB.n));
    else
        ABT_OK(ABT_pool_push_threads_ex(BB.pool, BB.tok, (size_t)BB.n, ABT_POOL_CONTEXT_OP_POOL_OTHER));
    sim_progress();
    __atomic_add_fetch(&BB.done, 1, __ATOMIC_RELAXED);
}
static void bb_b(void *arg)
{
    int pauses = (int)(long)arg;
    while (!BB.go)
        sim_yield();
    for (int i = 0; i < pauses; i++)
        sim_yield();
    ABT_OK(ABT_pool_push_thread(BB.pool, BB.tok[BB.n]));
    sim_progress();
    __atomic_add_fetch(&BB.done, 1, __ATOMIC_RELAXED);
}
static void bb_c(void *arg)
{
    int pauses = (int)(long)arg;
    while (!BB.go)
        sim_yield();
    for (int r = 0; r < 3; r++) {
        for (int i = 0; i < pauses; i++)
            sim_yield();
        ABT_thread out[BB_MAX + 8];
        size_t got = 0;
        ABT_OK(ABT_pool_pop_threads(BB.pool, out, BB_MAX + 8, &got));
        BB.pops[BB.npops++] = (int)got;
        for (size_t i = 0; i < got; i++) {
            int t = bb_index(out[i]);
            SIM_CHECK(t >= 0, "pool:pop-unknown-unit", "big-batch: pop_threads returned a handle that was never pushed");
            BB.order[BB.norder++] = t;
        }
        sim_progress();
    }
    __atomic_add_fetch(&BB.done, 1, __ATOMIC_RELAXED);
}
static void run_c07_batch(void)
{
    memset(&BB, 0, sizeof BB);
    wl_env_swarm();
    ABT_OK(ABT_init(0, NULL));
    static const ABT_pool_kind kinds[] = { ABT_POOL_FIFO, ABT_POOL_FIFO_WAIT, ABT_POOL_RANDWS };
    int k = (int)plan_n(3);
    BB.kind = (int)plan_n(4);
    BB.n = plan_range(60, 100);
    ABT_OK(ABT_pool_create_basic(kinds[k], plan_bool() ? ABT_POOL_ACCESS_MPMC : ABT_POOL_ACCESS_MPSC, ABT_FALSE, &BB.pool));
    ABT_OK(ABT_pool_create_basic(ABT_POOL_FIFO, ABT_POOL_ACCESS_MPMC, ABT_FALSE, &BB.park));
    sim_note("C07 big-batch pool=%s batch=%d ", wl_pool_names[k], BB.n);
    for (int i = 0; i <= BB.n; i++) {
        ABT_OK(ABT_thread_create(BB.park, token_fn, (void *)(long)0, ABT_THREAD_ATTR_NULL, &BB.tok[i]));
        ABT_thread th;
        ABT_OK(ABT_pool_pop_thread(BB.park, &th));
    }
    int ta = sim_thread_create(bb_a, NULL);
    int tb = sim_thread_create(bb_b, (void *)(long)plan_n(40));
    int tc = sim_thread_create(bb_c, (void *)(long)plan_n(30));
    BB.go = 1;
    sim_thread_join(ta);
    sim_thread_join(tb);
    sim_thread_join(tc);
    for (;;) {
        ABT_thread th = ABT_THREAD_NULL;
        ABT_OK(ABT_pool_pop_thread(BB.pool, &th));
        if (th == ABT_THREAD_NULL)
            break;
        int t = bb_index(th);
        SIM_CHECK(t >= 0 && BB.norder < BB_MAX + 8, "pool:pop-unknown-unit", "big-batch: the drain returned an unknown handle");
        BB.order[BB.norder++] = t;
    }
    SIM_CHECK(BB.norder == BB.n + 1, "pool:lost-unit", "big-batch: %d units pushed, %d came out", BB.n + 1, BB.norder);
    int seen[BB_MAX] = { 0 }, first = -1;
    for (int i = 0; i < BB.norder; i++) {
        SIM_CHECK(!seen[BB.order[i]]++, "pool:unit-popped-twice", "big-batch: unit %d came out twice", BB.order[i]);
        if (BB.order[i] == 0)
            first = i;
    }
    SIM_CHECK(first >= 0, "pool:lost-unit", "big-batch: the first unit of the batch never came out");
    for (int i = 0; i < BB.n; i++)
        SIM_CHECK(first + i < BB.norder && BB.order[first + i] == i, "pool:batch-torn",
                  "big-batch: ABT_pool_push_threads of %d units is not one queue operation: position %d after the batch's first unit holds unit %d (%s) instead of batch element %d", BB.n,
                  i, first + i < BB.norder ? BB.order[first + i] : -1, first + i < BB.norder && BB.order[first + i] == BB.n ? "the other producer's unit" : "out of order", i);
    for (int i = 0; i < BB.npops; i++)
        SIM_CHECK(BB.pops[i] == 0 || BB.pops[i] == 1 || BB.pops[i] == BB.n || BB.pops[i] == BB.n + 1, "pool:batch-torn",
                  "big-batch: a pop with a bound above everything returned %d units while a batch of %d and one single unit were being pushed: it saw a part of the batch", BB.pops[i], BB.n);
    sim_count("pool.big_batches", 1);
    ABT_xstream xs;
    ABT_pool mainp;
    ABT_OK(ABT_xstream_self(&xs));
    ABT_OK(ABT_xstream_get_main_pools(xs, 1, &mainp));
    for (int t = 0; t <= BB.n; t++) {
        ABT_OK(ABT_thread_set_associated_pool(BB.tok[t], mainp));
        ABT_OK(ABT_pool_push_thread(mainp, BB.tok[t]));
    }
    for (int t = 0; t <= BB.n; t++)
        ABT_OK(ABT_thread_free(&BB.tok[t]));
    ABT_OK(ABT_pool_free(&BB.pool));
    ABT_OK(ABT_pool_free(&BB.park));
    ABT_OK(ABT_finalize());
    sim_ledger_check_empty("after ABT_finalize");
}
SIM_WORKLOAD("C07", "big-batch", run_c07_batch, 1)
